package main

// C18 — decoders of untrusted bytes fail closed

import (
	"fmt"
	"go/token"
	"go/types"
	"regexp"
	"sort"
	"strings"

	"golang.org/x/tools/go/ssa"
)

func init() { register("C18", checkC18) }

// decoder entry points: every function whose input is an externally supplied byte string
var c18Roots = map[string][]string{
	"sm2": {"Decrypt", "DecryptAsn1", "CipherUnmarshal", "CipherMarshal", "Decompress", "SignDataToSignDigit", "(*PrivateKey).DecryptAsn1", "(*PrivateKey).Decrypt", "(*PublicKey).Verify"},
	"sm4": {"ReadKeyFromPem"},
	"x509": {"ParsePKCS7", "(*PKCS7).Decrypt", "(*PKCS7).DecryptSM2", "(*PKCS7).Verify", "ParseSm2PublicKey", "ParseSm2PrivateKey", "ParsePKCS8UnecryptedPrivateKey", "ParsePKCS8EcryptedPrivateKey", "ParsePKCS8PrivateKey",
		"ReadPrivateKeyFromPem", "ReadPublicKeyFromPem", "ReadPrivateKeyFromHex", "ReadPublicKeyFromHex", "ReadCertificateRequestFromPem", "ReadCertificateFromPem", "ParseSm2CertifateToX509",
		"ParsePKCS1PrivateKey", "ParsePKIXPublicKey", "ParseCertificate", "ParseCertificates", "ParseCRL", "ParseDERCRL", "ParseCertificateRequest", "(*CertPool).AppendCertsFromPEM"},
	"pkcs12": {"Decode", "DecodeAll", "ToPEM", "SM2P12Decrypt", "ParsePKCS8PrivateKey"},
	"gmtls": {"(*clientHelloMsg).unmarshal", "(*serverHelloMsg).unmarshal", "(*certificateMsg).unmarshal", "(*serverKeyExchangeMsg).unmarshal", "(*certificateStatusMsg).unmarshal", "(*serverHelloDoneMsg).unmarshal",
		"(*clientKeyExchangeMsg).unmarshal", "(*finishedMsg).unmarshal", "(*nextProtoMsg).unmarshal", "(*certificateRequestMsg).unmarshal", "(*certificateVerifyMsg).unmarshal", "(*newSessionTicketMsg).unmarshal",
		"(*helloRequestMsg).unmarshal", "(*certificateRequestMsgGM).unmarshal", "(*sessionState).unmarshal", "(*Conn).decryptTicket", "X509KeyPair", "GMX509KeyPairs", "GMX509KeyPairsSingle", "parsePrivateKey"},
}

// files whose functions are arithmetic primitives decided under other properties (C03 curve, C04 SM3, C05 SM4, C12 GCM)
// or vendored primitives outside the decoder surface; the decoder closure stops at them.
var c18PrimitiveFiles = map[string]string{
	"sm2/p256.go":     "curve arithmetic (bounds under C03)",
	"sm3/sm3.go":      "hash core (bounds under C04)",
	"sm4/sm4.go":      "block cipher core (bounds under C05/C11)",
	"sm4/sm4_gcm.go":  "GCM (bounds under C12)",
	"pkcs12/rc2.go":   "vendored RC2",
	"pkcs12/pbkdf.go": "vendored PKCS#12 KDF",
}

func c18Scope(c *Ctx) []*ssa.Function {
	seen := map[*ssa.Function]bool{}
	var order []*ssa.Function
	cg := c.P.VTA()
	var walk func(*ssa.Function)
	walk = func(g *ssa.Function) {
		if g == nil || seen[g] || g.Blocks == nil || !inRepo(g) {
			return
		}
		file := c.P.relFile(g.Pos())
		if _, prim := c18PrimitiveFiles[file]; prim {
			return
		}
		seen[g] = true
		order = append(order, g)
		for _, ci := range allCalls(g) {
			walk(ci.Common().StaticCallee())
		}
		// interface and function-value calls: callees per the VTA call graph
		if n := cg.Nodes[g]; n != nil {
			for _, e := range n.Out {
				walk(e.Callee.Func)
			}
		}
		for _, a := range g.AnonFuncs {
			walk(a)
		}
	}
	var pkgs []string
	for p := range c18Roots {
		pkgs = append(pkgs, p)
	}
	sort.Strings(pkgs)
	for _, pkg := range pkgs {
		for _, n := range c18Roots[pkg] {
			f := c.Fn(pkg, n)
			if f == nil {
				c.Missing("B-IDX", pkg+"."+n, "decoder entry point", "not found")
				continue
			}
			walk(f)
		}
	}
	sort.Slice(order, func(i, j int) bool { return fname(order[i]) < fname(order[j]) })
	return order
}

func (p *Prog) relFile(pos token.Pos) string {
	s := p.pos(pos)
	if i := strings.Index(s, ":"); i >= 0 {
		return s[:i]
	}
	return s
}

func checkC18(c *Ctx) {
	c.Decided = append(c.Decided,
		"B-IDX: every index, slice and make in the static call closure of the decoder entry points (certificates, CSR, CRL, PKCS#7/BER, PKCS#8, PKCS#12, PEM/hex keys, SM2 ciphertexts/signatures/points, TLS handshake messages, tickets) is in bounds for every input",
		"B-PANIC: no explicit panic call, single-value type assertion, unchecked nil result or unchecked CBC precondition is reachable in that closure",
		"B-LOOP: every loop and every recursive call in that closure has a ranking argument (a measure that strictly progresses towards a loop-invariant bound)")
	c.NotDec = append(c.NotDec, "time and memory inside encoding/asn1, encoding/pem, math/big and the hash/cipher primitives", "stack depth of the BER recursion in absolute terms (it is bounded by half the input length)")
	getFX(c)
	lbOvfMode = true
	defer func() { lbOvfMode = false }()
	scope := c18Scope(c)
	c.Notes = append(c.Notes, fmt.Sprintf("decoder closure: %d functions", len(scope)))
	if len(scope) < 60 {
		c.Undecided("B-IDX", "decoder closure", "size", fmt.Sprintf("only %d functions in the decoder closure (expected at least 60)", len(scope)), token.NoPos)
	}
	twoPass := "second pass of a two-pass parse: the first loop walked the same slice from the same start with the same length arithmetic, rejected every inconsistent length and counted the entries; the second loop repeats exactly that many steps (a relation between two loops, outside the per-site prover)"
	exempt := map[string]string{
		"B-IDX|(*gmtls.certificateMsg).unmarshal|@second-pass":                                                                      twoPass,
		"B-IDX|(*gmtls.certificateMsg).unmarshal|index ?phi1[0] #2":                                                                 twoPass,
		"B-IDX|(*gmtls.certificateMsg).unmarshal|index ?phi1[1] #2":                                                                 twoPass,
		"B-IDX|(*gmtls.certificateMsg).unmarshal|index ?phi1[2] #2":                                                                 twoPass,
		"B-IDX|(*gmtls.certificateMsg).unmarshal|slice ?phi4[3:or(idx(?phi3,2),shl(idx(?phi1,0),0x10),shl(idx(?phi2,1),0x8))+3] #1": twoPass,
		"B-IDX|(*gmtls.certificateMsg).unmarshal|slice ?phi4[or(idx(?phi3,2),shl(idx(?phi1,0),0x10),shl(idx(?phi2,1),0x8))+3:] #2":  twoPass,
		"B-IDX|(*x509.CertPool).contains|index field:certs(s)[idx(?*ssa.Lookup,?phi1+1)] #1":                                        "data-structure invariant of CertPool: byName only ever receives len(certs)-1 right after an append to certs (AddCert), and certs never shrinks; the index does not come from the input",
		"B-IDX|pkcs12.decodeBMPString|index ?phi1[1] #1":                                                                            "the length is checked to be even at entry and the loop consumes two bytes per iteration, so len > 0 implies len >= 2 (a parity invariant, outside the linear prover)",
		"B-IDX|pkcs12.SM2P12Decrypt|index extract1(call:pkcs12.DecodeAll(extract0(call:io/ioutil.ReadFile(fileName)),pwd))[0] #1":   "DecodeAll returns a nil error only with certificate != nil, and certificate is only ever extended by append of one parsed certificate (an inter-procedural loop invariant, outside the linear prover)",
		"B-IDX|sm2.kdf|index ?phi1[?phi2] #1":                                                                                       "c is the concatenation of ceil(length/32) digests with the last one truncated, exactly `length` bytes (checked as K-C02-kdf under C02); the scan index stays below length (a sum over a loop with a conditional last step, outside the linear prover)",
		"B-IDX|sm2.kdf|slice call:invoke hash.Hash.Sum(const:nil:[]byte)[:rem(length,0x20)] #1":                                     "reached only with i+1 == (length+31)/32 >= 1, i.e. length >= 1, so length%32 is in 1..31 and the digest has 32 bytes; the prover cannot use this because in overflow mode length+31 is not linear for an unbounded int parameter (KeyExchange hands kdf a caller-chosen klen); every decoder call site passes a slice length",
		"B-IDX|x509.pbkdf|slice ?phi1[:keyLen] #1":                                                                                  "dk has capacity numBlocks*hashLen with numBlocks = ceil(keyLen/hashLen), a product of two variables (outside the linear prover); keyLen is a constant of the PBES2 parameters at the call sites",
	}
	st := bidx(c, "B-IDX", scope, exempt)
	c.Notes = append(c.Notes, fmt.Sprintf("B-IDX: %d sites, %d compiler, %d LinBounds, %d unproven", st.sites, st.compiler, st.lin, st.unproved))
	c18Panics(c, scope)
	aeadNoncePre(c, "B-PRE-aead", scope)
	{
		// the existing B-DIV rule covers the decoder closure; the PKCS#12 KDF helpers (pbkdf.go) divide by lengths of
		// decoded salts and passwords and sit outside that closure's index rules
		inScope := map[*ssa.Function]bool{}
		for _, f := range scope {
			inScope[f] = true
		}
		var extra []*ssa.Function
		for _, f := range c.P.RepoFuncs("pkcs12") {
			if !inScope[f] {
				extra = append(extra, f)
			}
		}
		divSites(c, "B-DIV", extra)
	}
	c18Nil(c, scope)
	c18Pre(c, scope)
	c18Div(c, scope)
	c18Loops(c, scope, map[string]string{
		"B-LOOP|(x509.asn1Structured).EncodeTo|recursion through a dynamic call": "structural recursion over the object tree that readObject just built: every child is a fresh value appended by the parser, so the tree is finite and acyclic and its depth is bounded by the recursion depth of readObject",
	})
	checkIntContracts(c)
}

func c18Panics(c *Ctx, scope []*ssa.Function) {
	pre := c18PanicPreconditions(c, scope)
	for _, f := range scope {
		np, na := 0, 0
		instrsOf(f, func(_ *ssa.BasicBlock, in ssa.Instruction) {
			switch x := in.(type) {
			case *ssa.Panic:
				np++
				if pre[fname(f)] {
					c.Holds("B-PANIC", fname(f), fmt.Sprintf("explicit panic #%d", np), "precondition of an internal helper: established at every call site in the decoder closure", x.Pos())
					return
				}
				c.Violated("B-PANIC", fname(f), fmt.Sprintf("explicit panic #%d", np), "a decoder of untrusted bytes reaches an explicit panic", x.Pos())
			case *ssa.TypeAssert:
				if x.CommaOk {
					if bad := uncheckedAssertDeref(f, x); bad != nil {
						na++
						c.Violated("B-PANIC", fname(f), fmt.Sprintf("unchecked type assertion #%d to %s is dereferenced", na, shortType(x.AssertedType)), "the ok result is discarded and the value is dereferenced at "+c.P.pos(bad.Pos())+": another dynamic type yields a nil dereference", x.Pos())
					}
					return
				}
				if _, ok := x.X.(*ssa.MakeInterface); ok {
					return
				}
				na++
				c.Violated("B-PANIC", fname(f), fmt.Sprintf("single-value type assertion #%d to %s", na, shortType(x.AssertedType)), "a value of another dynamic type panics here", x.Pos())
			}
		})
		if np == 0 && na == 0 {
			c.Holds("B-PANIC", fname(f), "no explicit panic, no single-value type assertion", "", f.Pos())
		}
		c.Evals++
	}
	_ = strings.Contains
}

// ---- B-NIL: results that are nil for malformed input are nil-tested before they are dereferenced

var c18MayBeNil = map[string][]int{ // callee id -> result indexes that may be nil without an error
	"encoding/pem.Decode":                               {0},
	"crypto/elliptic.Unmarshal":                         {0, 1},
	"(*math/big.Int).ModSqrt":                           {0},
	"(*math/big.Int).ModInverse":                        {0},
	modPath + "/sm2.Decompress":                         {0},
	modPath + "/x509.getCertFromCertsByIssuerAndSerial": {0},
	modPath + "/x509.namedCurveFromOID":                 {0},
	modPath + "/pkcs12.namedCurveFromOID":               {0},
}

func c18Nil(c *Ctx, scope []*ssa.Function) {
	n := 0
	for _, f := range scope {
		for _, ci := range allCalls(f) {
			call, ok := ci.(*ssa.Call)
			if !ok {
				continue
			}
			id := calleeID(&call.Call)
			idxs, ok := c18MayBeNil[id]
			if !ok {
				continue
			}
			ord := siteOrdinalByID(f, call)
			for _, ri := range idxs {
				var v ssa.Value
				if call.Type().String() != "" {
					if _, isTuple := call.Type().(*types.Tuple); isTuple {
						for _, u := range *call.Referrers() {
							if ex, ok := u.(*ssa.Extract); ok && ex.Index == ri {
								v = ex
							}
						}
					} else if ri == 0 {
						v = call
					}
				}
				if v == nil {
					continue
				}
				n++
				c.Evals++
				construct := fmt.Sprintf("%s #%d result %d nil-tested before use", shortID(id), ord, ri)
				bad := nilUnsafeUses(f, v)
				if len(bad) == 0 {
					c.Holds("B-NIL", fname(f), construct, "every dereference is dominated by a nil test", call.Pos())
				} else {
					c.Violated("B-NIL", fname(f), construct, fmt.Sprintf("%s returns nil for malformed input; the result is dereferenced at %s without a dominating nil test", shortID(id), c.P.pos(bad[0].Pos())), call.Pos())
				}
			}
		}
	}
	c.MinSites("B-NIL", 8)
	_ = n
}

func shortID(id string) string {
	return strings.TrimPrefix(id, modPath+"/")
}

// nilUnsafeUses: instructions that dereference v (directly, or through a phi / conversion of v) and are not
// dominated by the passing edge of a `v != nil` test
func nilUnsafeUses(f *ssa.Function, v ssa.Value) []ssa.Instruction {
	return nilUnsafeUsesD(f, v, 0)
}

func nilUnsafeUsesD(f *ssa.Function, v ssa.Value, callDepth int) []ssa.Instruction {
	var bad []ssa.Instruction
	seen := map[ssa.Value]bool{}
	var visit func(x ssa.Value, inherited []*ssa.BasicBlock)
	visit = func(x ssa.Value, inherited []*ssa.BasicBlock) {
		if seen[x] || x.Referrers() == nil {
			return
		}
		seen[x] = true
		// blocks entered only when x != nil
		safeRoots := append([]*ssa.BasicBlock{}, inherited...)
		for _, ifi := range ifsOf(f) {
			bo, ok := ifi.Cond.(*ssa.BinOp)
			if !ok {
				continue
			}
			var other ssa.Value
			switch {
			case bo.X == x:
				other = bo.Y
			case bo.Y == x:
				other = bo.X
			default:
				continue
			}
			if !isNilConst(other) {
				continue
			}
			b := ifi.Block()
			var t *ssa.BasicBlock
			switch bo.Op {
			case token.NEQ:
				t = b.Succs[0]
			case token.EQL:
				t = b.Succs[1]
			}
			// the edge must be the only way into t
			if t != nil && len(t.Preds) == 1 {
				safeRoots = append(safeRoots, t)
			}
		}
		safe := func(in ssa.Instruction) bool {
			for _, r := range safeRoots {
				if r == in.Block() || r.Dominates(in.Block()) {
					return true
				}
			}
			return false
		}
		for _, u := range *x.Referrers() {
			switch y := u.(type) {
			case *ssa.FieldAddr:
				if y.X == x && !safe(y) {
					bad = append(bad, y)
				}
			case *ssa.UnOp:
				if y.Op == token.MUL && y.X == x && !safe(y) {
					bad = append(bad, y)
				}
			case *ssa.IndexAddr:
				if y.X == x && !safe(y) {
					if _, isPtr := x.Type().Underlying().(*types.Pointer); isPtr {
						bad = append(bad, y)
					}
				}
			case ssa.CallInstruction:
				cc := y.Common()
				if cc.IsInvoke() && cc.Value == x && !safe(y) {
					bad = append(bad, y)
				}
				if !cc.IsInvoke() && !safe(y) && callDepth < 2 {
					// a repo function that dereferences the corresponding parameter without testing it
					if sc := cc.StaticCallee(); sc != nil && inRepo(sc) && sc.Blocks != nil {
						for i, a := range cc.Args {
							if a == x && i < len(sc.Params) {
								if _, isPtr := a.Type().Underlying().(*types.Pointer); isPtr {
									if len(nilUnsafeUsesD(sc, sc.Params[i], callDepth+1)) > 0 {
										bad = append(bad, y)
									}
								}
							}
						}
					}
				}
				if !cc.IsInvoke() && !safe(y) {
					// math/big methods dereference their receiver and *big.Int operands
					if sc := cc.StaticCallee(); sc != nil && sc.Pkg != nil && sc.Pkg.Pkg.Path() == "math/big" {
						for _, a := range cc.Args {
							if a == x && isBigIntPtr(a.Type()) {
								bad = append(bad, y)
								break
							}
						}
					}
				}
			case *ssa.Phi:
				if !safe(y) {
					visit(y, safeRoots)
				}
			case *ssa.ChangeType:
				if !safe(y) {
					visit(y, safeRoots)
				}
			case *ssa.MakeInterface:
				if !safe(y) {
					visit(y, safeRoots)
				}
			}
		}
	}
	visit(v, nil)
	return bad
}

// ---- B-PRE: block-mode preconditions (cipher.NewCBCDecrypter panics unless len(iv) == BlockSize; CryptBlocks
// panics unless len(src) is a multiple of the block size) are established by rejecting tests before the call

func isBlockSizeValue(v ssa.Value) bool {
	v = stripConvAll(v)
	switch x := v.(type) {
	case *ssa.Call:
		return x.Call.IsInvoke() && x.Call.Method.Name() == "BlockSize"
	case *ssa.Extract:
		if call, ok := x.Tuple.(*ssa.Call); ok {
			return calleeNamed(call, "pbDecrypterFor") && x.Index == 1
		}
	case *ssa.Const:
		k, ok := constInt(x)
		return ok && (k == 8 || k == 16)
	}
	return false
}

func sameSliceValue(a, b ssa.Value) bool {
	return lenBase(a) == lenBase(b)
}

func c18Pre(c *Ctx, scope []*ssa.Function) {
	exemptIV := map[string]string{
		"pkcs12.pbDecrypterFor": "the IV comes from pbeCipherFor, which derives exactly 8 bytes (deriveIV: pbkdf size 8) for the two 8-byte-block ciphers of its table",
	}
	for _, f := range scope {
		spec, has := defaultResultSpec(f)
		for _, ci := range allCalls(f) {
			call, ok := ci.(*ssa.Call)
			if !ok {
				continue
			}
			cc := &call.Call
			switch {
			case cc.IsInvoke() && cc.Method.Name() == "CryptBlocks" && len(cc.Args) == 2:
				construct := fmt.Sprintf("CryptBlocks #%d source is a whole number of blocks", siteOrdinalByID(f, call))
				if !has {
					c.Undecided("B-PRE", fname(f), construct, "function has no error/bool result", call.Pos())
					continue
				}
				src := cc.Args[1]
				var atoms []Atom
				for _, ifi := range ifsOf(f) {
					bo, ok := ifi.Cond.(*ssa.BinOp)
					if !ok || (bo.Op != token.NEQ && bo.Op != token.EQL) {
						continue
					}
					if k, isC := constInt(bo.Y); !isC || k != 0 {
						continue
					}
					rem, ok := bo.X.(*ssa.BinOp)
					if !ok || rem.Op != token.REM || !isBlockSizeValue(rem.Y) {
						continue
					}
					if !isLenOf(rem.X, func(x ssa.Value) bool { return sameSliceValue(x, src) }) {
						continue
					}
					ps := 1
					if bo.Op == token.EQL {
						ps = 0
					}
					atoms = append(atoms, Atom{ifi, ps, "len % blockSize == 0"})
				}
				g := evalGuardSinks(c.P, f, atoms, spec, []ssa.Instruction{call})
				c.Check(g.OK, "B-PRE", fname(f), construct, g.Why, "CryptBlocks panics on a partial block: "+g.Why, call.Pos())
			case calleeID(cc) == "crypto/cipher.NewCBCDecrypter":
				construct := fmt.Sprintf("NewCBCDecrypter #%d IV is one block", siteOrdinalByID(f, call))
				if why, ok := exemptIV[fname(f)]; ok {
					c.Notes = append(c.Notes, "exempt B-PRE|"+fname(f)+"|"+construct+": "+why)
					continue
				}
				// the same invariant wherever the constructor call sits: the IV is the value pbeCipherFor returned
				if ex, isEx := cc.Args[1].(*ssa.Extract); isEx {
					if src, isCall := ex.Tuple.(*ssa.Call); isCall && calleeNamed(src, "pbeCipherFor") {
						c.Notes = append(c.Notes, "exempt B-PRE|"+fname(f)+"|"+construct+": "+exemptIV["pkcs12.pbDecrypterFor"])
						continue
					}
				}
				if !has {
					c.Undecided("B-PRE", fname(f), construct, "function has no error/bool result", call.Pos())
					continue
				}
				iv := cc.Args[1]
				var atoms []Atom
				for _, ifi := range ifsOf(f) {
					bo, ok := ifi.Cond.(*ssa.BinOp)
					if !ok || (bo.Op != token.NEQ && bo.Op != token.EQL) {
						continue
					}
					l, r := bo.X, bo.Y
					if isBlockSizeValue(l) {
						l, r = r, l
					}
					if !isBlockSizeValue(r) || !isLenOf(l, func(x ssa.Value) bool { return sameSliceValue(x, iv) }) {
						continue
					}
					ps := 1
					if bo.Op == token.EQL {
						ps = 0
					}
					atoms = append(atoms, Atom{ifi, ps, "len(iv) == blockSize"})
				}
				g := evalGuardSinks(c.P, f, atoms, spec, []ssa.Instruction{call})
				c.Check(g.OK, "B-PRE", fname(f), construct, g.Why, "cipher.NewCBCDecrypter panics unless the IV is exactly one block: "+g.Why, call.Pos())
			}
		}
	}
	c.MinSites("B-PRE", 5)
}

// ---- B-DIV: integer division and remainder by a value that is not a constant: the divisor is provably non-zero

func c18Div(c *Ctx, scope []*ssa.Function) {
	n := 0
	for _, f := range scope {
		lb := &LB{p: c.P, f: f, UsedContracts: map[string]bool{}, ovf: lbOvfMode}
		cfacts, _ := callerFacts(c.P, f)
		lb.extra = cfacts
		ord := 0
		instrsOf(f, func(b *ssa.BasicBlock, in ssa.Instruction) {
			bo, ok := in.(*ssa.BinOp)
			if !ok || (bo.Op != token.QUO && bo.Op != token.REM) {
				return
			}
			if _, _, isInt := intKind(bo.Type()); !isInt {
				return
			}
			if k, isC := constInt(bo.Y); isC {
				if k == 0 {
					c.Violated("B-DIV", fname(f), "division by the constant 0", "", bo.Pos())
				}
				return
			}
			ord++
			n++
			c.Evals++
			construct := fmt.Sprintf("divisor #%d is non-zero", ord)
			y := lb.linOf(bo.Y)
			if lb.prove([]cons{ge(y, linConst(1))}, b, nil, map[lvar]lin{}, 0) || lb.prove([]cons{le(y, linConst(-1))}, b, nil, map[lvar]lin{}, 0) {
				c.Holds("B-DIV", fname(f), construct, "divisor proven non-zero (LinBounds)", bo.Pos())
			} else {
				c.Violated("B-DIV", fname(f), construct, "no dominating test or contract proves the divisor non-zero for every input", bo.Pos())
			}
		})
	}
	c.Notes = append(c.Notes, fmt.Sprintf("B-DIV: %d non-constant divisors", n))
}

// ---- explicit panics that are preconditions of internal helpers: every call site in the decoder closure
// establishes the precondition

// registeredHashes: Hash constants for which the package initialiser registers a non-nil constructor
func registeredHashes(c *Ctx) map[int64]bool {
	out := map[int64]bool{}
	sp := c.P.SSAPkg["x509"]
	if sp == nil {
		return out
	}
	for _, initf := range c.P.RepoFuncs("x509") {
		if initf.Name() != "init" && !strings.HasPrefix(initf.Name(), "init#") {
			continue
		}
		scanInit(initf, out)
	}
	return out
}

func scanInit(initf *ssa.Function, out map[int64]bool) {
	instrsOf(initf, func(_ *ssa.BasicBlock, in ssa.Instruction) {
		call, ok := in.(*ssa.Call)
		if !ok || !calleeNamed(call, "RegisterHash") || len(call.Call.Args) != 2 {
			return
		}
		k, ok := constInt(call.Call.Args[0])
		if !ok {
			return
		}
		if cst, isC := call.Call.Args[1].(*ssa.Const); isC && cst.Value == nil {
			return // registered as unavailable
		}
		out[k] = true
	})
}

// passEdgeTarget: for `if v.M() {` / `if !v.M() {` style tests returns the block entered when cond is true
func condTrueTarget(ifi *ssa.If, cond ssa.Value) *ssa.BasicBlock {
	cur := ifi.Cond
	neg := false
	for {
		if u, ok := cur.(*ssa.UnOp); ok && u.Op == token.NOT {
			neg = !neg
			cur = u.X
			continue
		}
		break
	}
	if cur != cond {
		return nil
	}
	b := ifi.Block()
	t := b.Succs[0]
	if neg {
		t = b.Succs[1]
	}
	if len(t.Preds) != 1 {
		return nil
	}
	return t
}

func dominatedBy(t *ssa.BasicBlock, in ssa.Instruction) bool {
	return t != nil && (t == in.Block() || t.Dominates(in.Block()))
}

// hashNewSafe: the receiver of this (Hash).New call is a registered hash
func hashNewSafe(c *Ctx, f *ssa.Function, call *ssa.Call, reg map[int64]bool) (bool, string) {
	return hashValSafe(c, f, call.Call.Args[0], call, reg, 0)
}

// hashValSafe: the Hash value recv, used at `call` in f, is one with a registered constructor
func hashValSafe(c *Ctx, f *ssa.Function, recv ssa.Value, call *ssa.Call, reg map[int64]bool, depth int) (bool, string) {
	// (d) a parameter of an unexported helper whose address is not taken: established at every call site
	if prm, ok := recv.(*ssa.Parameter); ok && depth < 3 && f.Parent() == nil && f.Object() != nil && !f.Object().Exported() && f.Signature.Recv() == nil {
		buildCallIndex(c.P)
		sites := callSiteIndex[f]
		idx := -1
		for i, q := range f.Params {
			if q == prm {
				idx = i
			}
		}
		if idx >= 0 && len(sites) > 0 && !addrTaken[f] {
			for _, cs := range sites {
				cc, isCall := cs.(*ssa.Call)
				if !isCall || idx >= len(cs.Common().Args) {
					return false, "called through go/defer"
				}
				if ok, why := hashValSafe(c, cs.Parent(), cs.Common().Args[idx], cc, reg, depth+1); !ok {
					return false, "at the call site in " + fname(cs.Parent()) + ": " + why
				}
			}
			return true, fmt.Sprintf("parameter of a helper, established at its %d call site(s)", len(sites))
		}
	}
	if k, ok := constInt(recv); ok {
		if reg[k] {
			return true, "constant registered hash"
		}
		return false, fmt.Sprintf("hash constant %d has no registered constructor", k)
	}
	// (b) dominated by recv.Available()
	for _, ifi := range ifsOf(f) {
		for _, ci := range allCalls(f) {
			av, ok := ci.(*ssa.Call)
			if !ok || !calleeNamed(av, "Available") || av.Call.Args[0] != recv {
				continue
			}
			if t := condTrueTarget(ifi, av); dominatedBy(t, call) {
				return true, "dominated by Available()"
			}
		}
	}
	// (c) result of a repo function whose succeeding returns are registered constants, error tested by the caller
	if ex, ok := recv.(*ssa.Extract); ok {
		if g, ok := ex.Tuple.(*ssa.Call); ok {
			if sc := g.Call.StaticCallee(); sc != nil && inRepo(sc) {
				okAll := true
				nRet := 0
				for _, b := range sc.Blocks {
					ret, ok := b.Instrs[len(b.Instrs)-1].(*ssa.Return)
					if !ok {
						continue
					}
					if failingReturn(ret) {
						continue
					}
					nRet++
					k, isC := constInt(ret.Results[ex.Index])
					if !isC || !reg[k] {
						okAll = false
					}
				}
				if okAll && nRet > 0 && errTestedNil(g, call) {
					return true, "result of " + fname(sc) + ", whose succeeding returns are registered constants"
				}
			}
		}
	}
	// (b') inside a closure: the captured variable was tested with Available() before the closure was made
	if ld, ok := recv.(*ssa.UnOp); ok && ld.Op == token.MUL {
		if fv, ok := ld.X.(*ssa.FreeVar); ok && f.Parent() != nil {
			par := f.Parent()
			idx := -1
			for i, v := range f.FreeVars {
				if v == fv {
					idx = i
				}
			}
			// the closure itself must not assign the variable
			for _, u := range *fv.Referrers() {
				if st, ok := u.(*ssa.Store); ok && st.Addr == ssa.Value(fv) {
					return false, "the closure assigns the captured hash variable"
				}
			}
			var res bool
			instrsOf(par, func(_ *ssa.BasicBlock, in ssa.Instruction) {
				mc, ok := in.(*ssa.MakeClosure)
				if !ok || mc.Fn != ssa.Value(f) || idx < 0 || idx >= len(mc.Bindings) {
					return
				}
				cell := mc.Bindings[idx]
				for _, ifi := range ifsOf(par) {
					for _, ci := range allCalls(par) {
						av, ok := ci.(*ssa.Call)
						if !ok || !calleeNamed(av, "Available") {
							continue
						}
						l2, ok := av.Call.Args[0].(*ssa.UnOp)
						if !ok || l2.Op != token.MUL || l2.X != cell {
							continue
						}
						t := condTrueTarget(ifi, av)
						if !dominatedBy(t, mc) {
							continue
						}
						// no assignment to the variable after the test
						after := reach([]*ssa.BasicBlock{t}, nil)
						clean := true
						for _, u := range *cell.Referrers() {
							if st, ok := u.(*ssa.Store); ok && st.Addr == cell && after[st.Block()] {
								clean = false
							}
						}
						if clean {
							res = true
						}
					}
				}
			})
			if res {
				return true, "captured variable tested with Available() before the closure is created and not assigned afterwards"
			}
		}
	}
	return false, "the receiver is not a registered constant, not tested with Available() and not the result of a function returning registered constants"
}

// errTestedNil: `at` is dominated by the nil edge of a test of call's error result
func errTestedNil(call *ssa.Call, at ssa.Instruction) bool {
	refs := call.Referrers()
	if refs == nil {
		return false
	}
	for _, u := range *refs {
		ex, ok := u.(*ssa.Extract)
		if !ok || !isErrorType(ex.Type()) {
			continue
		}
		for _, u2 := range *ex.Referrers() {
			bo, ok := u2.(*ssa.BinOp)
			if !ok || !isNilConst(bo.Y) || bo.X != ssa.Value(ex) {
				continue
			}
			for _, u3 := range *bo.Referrers() {
				ifi, ok := u3.(*ssa.If)
				if !ok {
					continue
				}
				var t *ssa.BasicBlock
				if bo.Op == token.NEQ {
					t = ifi.Block().Succs[1]
				} else if bo.Op == token.EQL {
					t = ifi.Block().Succs[0]
				}
				if t != nil && len(t.Preds) == 1 && dominatedBy(t, at) {
					return true
				}
			}
		}
	}
	return false
}

// nonNilOnSuccess: result i of g is non-nil on every return that does not carry a non-nil error
func nonNilOnSuccess(g *ssa.Function, i int, depth int) bool {
	if depth > 4 || g == nil || g.Blocks == nil {
		return false
	}
	n := 0
	for _, b := range g.Blocks {
		ret, ok := b.Instrs[len(b.Instrs)-1].(*ssa.Return)
		if !ok {
			continue
		}
		if failingReturn(ret) {
			continue
		}
		n++
		switch x := ret.Results[i].(type) {
		case *ssa.Alloc:
		case *ssa.Extract:
			// return h(...): both results come from the same call
			call, ok := x.Tuple.(*ssa.Call)
			if !ok || x.Index != i {
				return false
			}
			for j, r := range ret.Results {
				ex, ok := r.(*ssa.Extract)
				if !ok || ex.Tuple != x.Tuple || ex.Index != j {
					return false
				}
			}
			if !nonNilOnSuccess(call.Call.StaticCallee(), i, depth+1) {
				return false
			}
		default:
			return false
		}
	}
	return n > 0
}

func c18PanicPreconditions(c *Ctx, scope []*ssa.Function) map[string]bool {
	handled := map[string]bool{}
	inScope := map[*ssa.Function]bool{}
	for _, f := range scope {
		inScope[f] = true
	}
	reg := registeredHashes(c)
	if len(reg) < 10 {
		c.Undecided("B-PANIC", "x509.init", "hash registry", fmt.Sprintf("only %d registered hashes recognised", len(reg)), token.NoPos)
	}
	hashNew := c.Fn("x509", "Hash.New")
	addCert := c.Fn("x509", "(*CertPool).AddCert")
	allOK := map[*ssa.Function]bool{hashNew: true, addCert: true}
	nsites := map[*ssa.Function]int{}
	for _, f := range scope {
		for _, ci := range allCalls(f) {
			call, ok := ci.(*ssa.Call)
			if !ok {
				continue
			}
			sc := call.Call.StaticCallee()
			switch {
			case sc != nil && sc == hashNew:
				nsites[sc]++
				ok, why := hashNewSafe(c, f, call, reg)
				construct := fmt.Sprintf("Hash.New #%d is called on an available hash", siteOrdinalByID(f, call))
				c.Check(ok, "B-PANIC", fname(f), construct, why, "Hash.New panics for a hash without a registered constructor: "+why, call.Pos())
				if !ok {
					allOK[sc] = false
				}
			case sc != nil && sc == addCert:
				nsites[sc]++
				arg := call.Call.Args[1]
				ok := false
				why := "the argument is not provably non-nil"
				if ex, isEx := arg.(*ssa.Extract); isEx {
					if g, isCall := ex.Tuple.(*ssa.Call); isCall && errTestedNil(g, call) && nonNilOnSuccess(g.Call.StaticCallee(), ex.Index, 0) {
						ok, why = true, "result of a successful "+fname(g.Call.StaticCallee())
					}
				}
				if !ok {
					if ok2, w := filledNonNil(f, arg, call); ok2 {
						ok, why = true, w
					} else {
						why = "the argument is not provably non-nil (" + w + ")"
					}
				}
				construct := fmt.Sprintf("AddCert #%d receives a non-nil certificate", siteOrdinalByID(f, call))
				if !ok && c.P.isNewFunction(fname(f)) {
					// inside a helper that is not on the reference list: whether its argument holds parsed
					// certificates is a fact about its callers
					c.Undecided("B-PANIC", fname(f), construct, fname(f)+" is a new helper; its callers may establish that the certificates are non-nil: "+why, call.Pos())
					continue
				}
				c.Check(ok, "B-PANIC", fname(f), construct, why, "CertPool.AddCert panics for a nil certificate: "+why, call.Pos())
				if !ok {
					allOK[sc] = false
				}
			}
		}
	}
	for g, ok := range allOK {
		if g != nil && ok && nsites[g] > 0 {
			handled[fname(g)] = true
		}
	}
	return handled
}

// failingReturn: the return carries a non-nil error (a literal error, or an error value the return is
// dominated by a `!= nil` test of)
func failingReturn(ret *ssa.Return) bool {
	f := ret.Parent()
	for _, r := range ret.Results {
		if !isErrorType(r.Type()) {
			continue
		}
		if definitelyNonNil(r, 0, map[ssa.Value]bool{}) {
			return true
		}
		for _, ifi := range ifsOf(f) {
			bo, ok := ifi.Cond.(*ssa.BinOp)
			if !ok || !isNilConst(bo.Y) || bo.X != r {
				continue
			}
			var t *ssa.BasicBlock
			if bo.Op == token.NEQ {
				t = ifi.Block().Succs[0]
			} else if bo.Op == token.EQL {
				t = ifi.Block().Succs[1]
			}
			if t != nil && len(t.Preds) == 1 && dominatedBy(t, ret) {
				return true
			}
		}
	}
	return false
}

// uncheckedAssertDeref: `v, _ := x.(*T)` whose ok flag is never looked at and whose value is dereferenced
func uncheckedAssertDeref(f *ssa.Function, x *ssa.TypeAssert) ssa.Instruction {
	if _, isPtr := x.AssertedType.Underlying().(*types.Pointer); !isPtr {
		return nil
	}
	var val, okv ssa.Value
	for _, u := range *x.Referrers() {
		if ex, isEx := u.(*ssa.Extract); isEx {
			if ex.Index == 0 {
				val = ex
			} else {
				okv = ex
			}
		}
	}
	if okv != nil {
		for _, u := range *okv.Referrers() {
			if _, isDbg := u.(*ssa.DebugRef); !isDbg {
				return nil
			}
		}
	}
	if val == nil {
		return nil
	}
	// the same operand already passed a checked assertion to the same type on the way here (a re-assertion inside
	// the matching case of a type switch)
	for _, b := range f.Blocks {
		for _, in := range b.Instrs {
			ta2, ok := in.(*ssa.TypeAssert)
			if !ok || ta2 == x || !ta2.CommaOk || !types.Identical(ta2.AssertedType, x.AssertedType) {
				continue
			}
			if ta2.X != x.X && !sameFieldLoad(f, ta2.X, x.X) {
				continue
			}
			for _, u := range *ta2.Referrers() {
				ex, isEx := u.(*ssa.Extract)
				if !isEx || ex.Index != 1 {
					continue
				}
				for _, u2 := range *ex.Referrers() {
					if ifi, isIf := u2.(*ssa.If); isIf {
						if t := condTrueTarget(ifi, ex); dominatedBy(t, x) {
							return nil
						}
					}
				}
			}
		}
	}
	if bad := nilUnsafeUses(f, val); len(bad) > 0 {
		return bad[0]
	}
	return nil
}

// aeadNoncePre: cipher.AEAD.Open and Seal PANIC when the nonce does not have NonceSize() bytes. Where the nonce comes
// from decoded input, a dominating length test must make the call unreachable: ASSUME `len(nonce) != <anything>` is
// true for the nonce expression of the call; the call must then be unreachable. (A nonce that is a fixed-size local
// array or is produced by make(NonceSize()) is not a decoded value and is skipped.)
func aeadNoncePre(c *Ctx, rule string, scope []*ssa.Function) {
	n := 0
	for _, f := range scope {
		for _, name := range []string{"Open", "Seal"} {
			for _, call := range invokesOf(f, name) {
				if len(call.Call.Args) != 4 {
					continue
				}
				nonce := call.Call.Args[1]
				if lenBaseIsFresh(nonce) {
					continue
				}
				n++
				ci := newCondIndex(f, allParamNames(f))
				ns := ci.be.plain(nonce, call).String()
				reachable := true
				ci.withAssumptions([]assumption{{`re:ne\(len\(` + regexp.QuoteMeta(ns) + `\),.+\)`, true}}, func() {
					reachable = reach([]*ssa.BasicBlock{f.Blocks[0]}, deadEdges(f))[call.Block()]
				})
				c.Check(!reachable, rule, fname(f), fmt.Sprintf("AEAD %s is only reached with a nonce of NonceSize() bytes", name), "", "assuming the decoded nonce "+ns+" has another length than the one it is compared with, the AEAD call is still reached: crypto/cipher panics (\"incorrect nonce length\") on attacker-chosen parameters", call.Pos())
			}
		}
	}
	if n == 0 {
		c.Notes = append(c.Notes, rule+": no AEAD call with a decoded nonce in scope")
	}
}

// lenBaseIsFresh: the slice is cut from a local fixed-size array or a make
func lenBaseIsFresh(v ssa.Value) bool {
	for i := 0; i < 6; i++ {
		switch x := v.(type) {
		case *ssa.Slice:
			v = x.X
		case *ssa.MakeSlice, *ssa.Alloc:
			return true
		default:
			return false
		}
	}
	return false
}

// divSites: an integer division or remainder panics when the divisor is zero. Where the divisor is not a non-zero
// constant it must be provably >= 1 at the site for every input (typically len(x) of decoded data: an empty salt or
// pattern). Decided by the bounds prover with caller facts.
func divSites(c *Ctx, rule string, fs []*ssa.Function) {
	seen := map[*ssa.Function]bool{}
	n := 0
	for _, f := range fs {
		if f == nil || seen[f] || f.Blocks == nil || strings.HasSuffix(c.P.relFile(f.Pos()), "_test.go") || strings.HasSuffix(c.P.relFile(f.Pos()), "pkcs12/rc2.go") {
			// rc2.go: vendored cipher, its key-schedule arithmetic (a modulus 1<<k with k in 1..8) is declared not decided
			continue
		}
		seen[f] = true
		var lb *LB
		k := 0
		instrsOf(f, func(b *ssa.BasicBlock, in ssa.Instruction) {
			bo, ok := in.(*ssa.BinOp)
			if !ok || (bo.Op != token.QUO && bo.Op != token.REM) {
				return
			}
			bt, isB := bo.Type().Underlying().(*types.Basic)
			if !isB || bt.Info()&types.IsInteger == 0 {
				return
			}
			if kk, isK := constInt(bo.Y); isK && kk != 0 {
				return
			}
			if lb == nil {
				lb = &LB{p: c.P, f: f, UsedContracts: map[string]bool{}}
				cf, _ := callerFacts(c.P, f)
				lb.extra = cf
			}
			k++
			n++
			c.Evals++
			okd := lb.prove([]cons{ge(lb.linOf(bo.Y), linConst(1))}, b, nil, map[lvar]lin{}, 3)
			if !okd && bt.Info()&types.IsUnsigned == 0 {
				// a negative divisor is not zero either
				okd = lb.prove([]cons{le(lb.linOf(bo.Y), linConst(-1))}, b, nil, map[lvar]lin{}, 2)
			}
			c.Check(okd, rule, fname(f), fmt.Sprintf("divisor of %s #%d is never zero", bo.Op, k), "", "the divisor of this integer "+bo.Op.String()+" is not provably non-zero for every input (an empty decoded salt, pattern or list makes it len(x) == 0): integer divide by zero panics instead of an error", bo.Pos())
		})
	}
	if n == 0 {
		c.Notes = append(c.Notes, rule+": no integer division by a non-constant in scope")
	}
}
