package main

// effects.go — engine FX: may-write summaries per function, closed over the
// call graph. Locations are abstract roots: memory reachable from parameter i
// (optionally refined by the first struct field on the access path), a
// package-level variable, or "fresh" (allocated in the function; ignored).
// Reachability is by derivation (FieldAddr/IndexAddr/Slice/loads/phis/
// conversions), not points-to (x/tools v0.29.0 ships no pointer analysis).

import (
	"fmt"
	"go/token"
	"go/types"
	"sort"
	"strings"

	"golang.org/x/tools/go/ssa"
)

type rootKind int

const (
	rkParam rootKind = iota
	rkGlobal
	rkFreeVar
)

type root struct {
	Kind  rootKind
	Idx   int    // param / freevar index
	G     string // global: pkgpath.Name
	Field string // first field on the access path ("" = whole / unknown)
}

func (r root) String() string {
	s := ""
	switch r.Kind {
	case rkParam:
		s = fmt.Sprintf("param#%d", r.Idx)
	case rkGlobal:
		s = "global " + strings.ReplaceAll(r.G, modPath+"/", "")
	case rkFreeVar:
		s = fmt.Sprintf("freevar#%d", r.Idx)
	}
	if r.Field != "" {
		s += "." + r.Field
	}
	return s
}

type witness struct {
	Pos  token.Pos
	What string // "store", "append", "copy", "call f"
	Via  *ssa.Function
}

type fxSummary struct {
	writes map[root]witness
	// rets[i] = roots the i-th result may alias (derive from)
	rets map[int]map[root]bool
}

type FX struct {
	p      *Prog
	sum    map[*ssa.Function]*fxSummary
	impls  map[string][]*ssa.Function // method name -> repo methods (for invoke resolution)
	Instrs int
}

func NewFX(p *Prog) *FX {
	fx := &FX{p: p, sum: map[*ssa.Function]*fxSummary{}, impls: map[string][]*ssa.Function{}}
	var fns []*ssa.Function
	for f := range p.AllFns {
		if inRepo(f) && f.Blocks != nil {
			fns = append(fns, f)
			fx.sum[f] = &fxSummary{writes: map[root]witness{}, rets: map[int]map[root]bool{}}
			if f.Signature.Recv() != nil && f.Synthetic == "" {
				fx.impls[f.Name()] = append(fx.impls[f.Name()], f)
			}
		}
	}
	sort.Slice(fns, func(i, j int) bool { return fns[i].String() < fns[j].String() })
	for iter := 0; iter < 50; iter++ {
		changed := false
		for _, f := range fns {
			if fx.analyse(f) {
				changed = true
			}
		}
		if !changed {
			break
		}
	}
	return fx
}

// Writes returns the may-write set of f (roots in terms of f's own params).
func (fx *FX) Writes(f *ssa.Function) map[root]witness {
	if s := fx.sum[f]; s != nil {
		return s.writes
	}
	return nil
}

type rootSet map[root]bool

func (fx *FX) trace(f *ssa.Function, v ssa.Value, depth int, seen map[ssa.Value]bool) rootSet {
	out := rootSet{}
	if v == nil || depth > 40 || seen[v] {
		return out
	}
	seen[v] = true
	defer delete(seen, v)
	addAll := func(s rootSet) {
		for r := range s {
			out[r] = true
		}
	}
	withField := func(s rootSet, fld string) {
		for r := range s {
			if r.Field == "" {
				r.Field = fld
			}
			out[r] = true
		}
	}
	switch x := v.(type) {
	case *ssa.Parameter:
		for i, p := range f.Params {
			if p == x {
				out[root{Kind: rkParam, Idx: i}] = true
			}
		}
	case *ssa.FreeVar:
		for i, p := range f.FreeVars {
			if p == x {
				out[root{Kind: rkFreeVar, Idx: i}] = true
			}
		}
	case *ssa.Global:
		out[root{Kind: rkGlobal, G: x.Pkg.Pkg.Path() + "." + x.Name()}] = true
	case *ssa.Alloc:
		// a local variable: what it holds is what was stored into it. The
		// cell itself is fresh.
		if refs := x.Referrers(); refs != nil {
			for _, in := range *refs {
				if st, ok := in.(*ssa.Store); ok && st.Addr == x {
					if pointerLike(st.Val.Type()) {
						addAll(fx.trace(f, st.Val, depth+1, seen))
					}
				}
			}
		}
	case *ssa.FieldAddr:
		st := derefStruct(x.X.Type())
		fld := ""
		if st != nil && x.Field < st.NumFields() {
			fld = st.Field(x.Field).Name()
		}
		withField(fx.trace(f, x.X, depth+1, seen), fld)
	case *ssa.Field:
		st, _ := x.X.Type().Underlying().(*types.Struct)
		fld := ""
		if st != nil && x.Field < st.NumFields() {
			fld = st.Field(x.Field).Name()
		}
		withField(fx.trace(f, x.X, depth+1, seen), fld)
	case *ssa.IndexAddr:
		addAll(fx.trace(f, x.X, depth+1, seen))
	case *ssa.Index:
		addAll(fx.trace(f, x.X, depth+1, seen))
	case *ssa.Lookup:
		addAll(fx.trace(f, x.X, depth+1, seen))
	case *ssa.Slice:
		addAll(fx.trace(f, x.X, depth+1, seen))
	case *ssa.UnOp:
		if x.Op == token.MUL {
			if al, ok := x.X.(*ssa.Alloc); ok {
				addAll(fx.trace(f, al, depth+1, seen))
			} else {
				addAll(fx.trace(f, x.X, depth+1, seen))
			}
		}
	case *ssa.Phi:
		for _, e := range x.Edges {
			addAll(fx.trace(f, e, depth+1, seen))
		}
	case *ssa.Convert:
		if pointerLike(x.X.Type()) && pointerLike(x.Type()) {
			// []byte(string) allocates; slice->slice named conversions alias
			if _, isStr := x.X.Type().Underlying().(*types.Basic); !isStr {
				if _, isStr2 := x.Type().Underlying().(*types.Basic); !isStr2 {
					addAll(fx.trace(f, x.X, depth+1, seen))
				}
			}
		}
	case *ssa.ChangeType:
		addAll(fx.trace(f, x.X, depth+1, seen))
	case *ssa.ChangeInterface:
		addAll(fx.trace(f, x.X, depth+1, seen))
	case *ssa.MakeInterface:
		if pointerLike(x.X.Type()) {
			addAll(fx.trace(f, x.X, depth+1, seen))
		}
	case *ssa.TypeAssert:
		addAll(fx.trace(f, x.X, depth+1, seen))
	case *ssa.SliceToArrayPointer:
		addAll(fx.trace(f, x.X, depth+1, seen))
	case *ssa.Extract:
		if c, ok := x.Tuple.(*ssa.Call); ok {
			addAll(fx.callResult(f, c, x.Index, depth, seen))
		} else if ta, ok := x.Tuple.(*ssa.TypeAssert); ok && x.Index == 0 {
			addAll(fx.trace(f, ta.X, depth+1, seen))
		} else if lk, ok := x.Tuple.(*ssa.Lookup); ok && x.Index == 0 {
			addAll(fx.trace(f, lk.X, depth+1, seen))
		} else if un, ok := x.Tuple.(*ssa.UnOp); ok && x.Index == 0 {
			addAll(fx.trace(f, un.X, depth+1, seen))
		}
	case *ssa.Call:
		addAll(fx.callResult(f, x, 0, depth, seen))
	case *ssa.MakeClosure, *ssa.MakeSlice, *ssa.MakeMap, *ssa.MakeChan, *ssa.Const, *ssa.Function, *ssa.BinOp:
		// fresh / no memory
	}
	return out
}

func pointerLike(t types.Type) bool {
	switch u := t.Underlying().(type) {
	case *types.Pointer, *types.Slice, *types.Map, *types.Chan, *types.Interface, *types.Signature:
		return true
	case *types.Struct:
		for i := 0; i < u.NumFields(); i++ {
			if pointerLike(u.Field(i).Type()) {
				return true
			}
		}
	case *types.Array:
		return pointerLike(u.Elem())
	case *types.Tuple:
		return true
	}
	return false
}

func derefStruct(t types.Type) *types.Struct {
	if p, ok := t.Underlying().(*types.Pointer); ok {
		t = p.Elem()
	}
	s, _ := t.Underlying().(*types.Struct)
	return s
}

// callResult: roots that result #idx of call c may alias.
func (fx *FX) callResult(f *ssa.Function, c *ssa.Call, idx, depth int, seen map[ssa.Value]bool) rootSet {
	out := rootSet{}
	cc := &c.Call
	if b, ok := cc.Value.(*ssa.Builtin); ok {
		if b.Name() == "append" && len(cc.Args) > 0 {
			for r := range fx.trace(f, cc.Args[0], depth+1, seen) {
				out[r] = true
			}
		}
		return out
	}
	for _, callee := range fx.callees(cc) {
		s := fx.sum[callee]
		if s == nil {
			continue
		}
		for r := range s.rets[idx] {
			for m := range fx.mapRoot(f, cc, callee, r, depth, seen) {
				out[m] = true
			}
		}
	}
	if len(fx.callees(cc)) == 0 || !cc.IsInvoke() && cc.StaticCallee() != nil && !inRepo(cc.StaticCallee()) {
		// stdlib: a few functions return sub-slices of their argument
		id := calleeID(cc)
		if stdlibReturnsArg[id] && len(cc.Args) > 0 {
			for r := range fx.trace(f, cc.Args[0], depth+1, seen) {
				out[r] = true
			}
		}
	}
	return out
}

var stdlibReturnsArg = map[string]bool{
	"bytes.TrimSpace": true, "bytes.TrimLeft": true, "bytes.TrimRight": true, "bytes.Trim": true,
	"bytes.TrimPrefix": true, "bytes.TrimSuffix": true, "bytes.TrimLeftFunc": true, "bytes.TrimRightFunc": true,
}

// callees: repo functions a call may reach (static, or by method name+type for invokes).
func (fx *FX) callees(cc *ssa.CallCommon) []*ssa.Function {
	if cc.IsInvoke() {
		var out []*ssa.Function
		it, _ := cc.Value.Type().Underlying().(*types.Interface)
		for _, m := range fx.impls[cc.Method.Name()] {
			recv := m.Signature.Recv().Type()
			if it != nil && (types.Implements(recv, it) || types.Implements(types.NewPointer(recv), it)) {
				out = append(out, m)
			}
		}
		return out
	}
	if sc := cc.StaticCallee(); sc != nil {
		if fx.sum[sc] != nil {
			return []*ssa.Function{sc}
		}
		return nil
	}
	// call of a closure value defined in this function
	if mc, ok := cc.Value.(*ssa.MakeClosure); ok {
		if fn, ok := mc.Fn.(*ssa.Function); ok && fx.sum[fn] != nil {
			return []*ssa.Function{fn}
		}
	}
	return nil
}

// mapRoot translates a callee root into caller roots at call site cc.
func (fx *FX) mapRoot(f *ssa.Function, cc *ssa.CallCommon, callee *ssa.Function, r root, depth int, seen map[ssa.Value]bool) rootSet {
	out := rootSet{}
	switch r.Kind {
	case rkGlobal:
		out[r] = true
	case rkParam:
		var arg ssa.Value
		if cc.IsInvoke() {
			if r.Idx == 0 {
				arg = cc.Value
			} else if r.Idx-1 < len(cc.Args) {
				arg = cc.Args[r.Idx-1]
			}
		} else if r.Idx < len(cc.Args) {
			arg = cc.Args[r.Idx]
		}
		if arg != nil {
			for m := range fx.trace(f, arg, depth+1, seen) {
				if m.Field == "" {
					m.Field = r.Field
				}
				out[m] = true
			}
		}
	case rkFreeVar:
		if mc, ok := cc.Value.(*ssa.MakeClosure); ok && r.Idx < len(mc.Bindings) {
			for m := range fx.trace(f, mc.Bindings[r.Idx], depth+1, seen) {
				out[m] = true
			}
		}
	}
	return out
}

func (fx *FX) analyse(f *ssa.Function) bool {
	s := fx.sum[f]
	changed := false
	addW := func(rs rootSet, w witness) {
		for r := range rs {
			if _, ok := s.writes[r]; !ok {
				s.writes[r] = w
				changed = true
			}
		}
	}
	seen := map[ssa.Value]bool{}
	for _, b := range f.Blocks {
		for _, in := range b.Instrs {
			fx.Instrs++
			switch x := in.(type) {
			case *ssa.Store:
				if _, isAlloc := x.Addr.(*ssa.Alloc); isAlloc {
					continue
				}
				addW(fx.trace(f, x.Addr, 0, seen), witness{x.Pos(), "store", nil})
			case *ssa.MapUpdate:
				addW(fx.trace(f, x.Map, 0, seen), witness{x.Pos(), "map update", nil})
			case *ssa.MakeClosure:
				// conservatively: the closure may be invoked; its freevar writes hit the bindings
				if fn, ok := x.Fn.(*ssa.Function); ok {
					if cs := fx.sum[fn]; cs != nil {
						for r, w := range cs.writes {
							switch r.Kind {
							case rkFreeVar:
								if r.Idx < len(x.Bindings) {
									rs := fx.trace(f, x.Bindings[r.Idx], 0, seen)
									addW(rs, witness{w.Pos, "closure " + w.What, fn})
								}
							case rkGlobal:
								addW(rootSet{r: true}, witness{w.Pos, "closure " + w.What, fn})
							}
						}
					}
				}
			case ssa.CallInstruction:
				cc := x.Common()
				if bi, ok := cc.Value.(*ssa.Builtin); ok {
					switch bi.Name() {
					case "copy":
						addW(fx.trace(f, cc.Args[0], 0, seen), witness{x.Pos(), "copy(dst,…)", nil})
					case "append":
						if !appendIsFresh(cc.Args[0]) {
							addW(fx.trace(f, cc.Args[0], 0, seen), witness{x.Pos(), "append (may write spare capacity)", nil})
						}
					case "delete", "clear":
						addW(fx.trace(f, cc.Args[0], 0, seen), witness{x.Pos(), bi.Name(), nil})
					}
					continue
				}
				cal := fx.callees(cc)
				for _, callee := range cal {
					cs := fx.sum[callee]
					for r, w := range cs.writes {
						if r.Kind == rkFreeVar {
							if _, ok := cc.Value.(*ssa.MakeClosure); !ok {
								continue
							}
						}
						via := callee
						what := "call " + fname(callee) + " → " + w.What
						if len(what) > 160 {
							what = what[:160] + "…"
						}
						addW(fx.mapRoot(f, cc, callee, r, 0, seen), witness{x.Pos(), what, via})
					}
				}
				// non-repo callee (stdlib, x/crypto) or interface method with table entry
				fx.stdlibWrites(f, x, cc, addW, seen)
			}
			if ret, ok := in.(*ssa.Return); ok {
				for i, rv := range ret.Results {
					if !pointerLike(rv.Type()) {
						continue
					}
					for r := range fx.trace(f, rv, 0, seen) {
						if s.rets[i] == nil {
							s.rets[i] = map[root]bool{}
						}
						if !s.rets[i][r] {
							s.rets[i][r] = true
							changed = true
						}
					}
				}
			}
		}
	}
	return changed
}

// appendIsFresh: append([]T{}, …) / append([]T(nil), …) / append(make(..,0)…)
func appendIsFresh(v ssa.Value) bool {
	switch x := v.(type) {
	case *ssa.Const:
		return true // nil slice
	case *ssa.Slice:
		if al, ok := x.X.(*ssa.Alloc); ok {
			// []T{} literal: slice of a fresh zero-length array
			if at, ok := al.Type().Underlying().(*types.Pointer); ok {
				if arr, ok := at.Elem().Underlying().(*types.Array); ok && arr.Len() == 0 {
					return true
				}
			}
		}
	}
	return false
}

// ---- library summaries

// interface methods (by name) and stdlib functions that write caller memory.
// value = indices (into the full arg list incl. receiver for static method
// calls; receiver = -1 for invokes) of written arguments.
var ifaceMethodWrites = map[string][]int{
	// method name: written args; -1 = receiver
	"Write":           {-1},
	"Reset":           {-1},
	"Sum":             {0},     // hash.Hash.Sum(b) appends to b
	"Read":            {-1, 0}, // io.Reader
	"Encrypt":         {0},     // cipher.Block.Encrypt(dst, src)
	"Decrypt":         {0},
	"CryptBlocks":     {-1, 0},
	"XORKeyStream":    {-1, 0},
	"Seal":            {0},
	"Open":            {0},
	"Close":           {-1},
	"Put":             {-1},
	"SetDeadline":     {-1},
	"SetReadDeadline": {-1}, "SetWriteDeadline": {-1},
}

var stdlibFuncWrites = map[string][]int{
	"io.ReadFull":                              {0, 1},
	"io.ReadAtLeast":                           {0, 1},
	"io.Copy":                                  {0, 1},
	"io.CopyN":                                 {0, 1},
	"encoding/hex.Decode":                      {0},
	"encoding/hex.Encode":                      {0},
	"encoding/asn1.Unmarshal":                  {1},
	"encoding/asn1.UnmarshalWithParams":        {1},
	"encoding/json.Unmarshal":                  {1},
	"crypto/rand.Read":                         {0},
	"crypto/subtle.ConstantTimeCopy":           {1},
	"sort.Sort":                                {0},
	"sort.Slice":                               {0},
	"(encoding/binary.bigEndian).PutUint16":    {1},
	"(encoding/binary.bigEndian).PutUint32":    {1},
	"(encoding/binary.bigEndian).PutUint64":    {1},
	"(encoding/binary.littleEndian).PutUint16": {1},
	"(encoding/binary.littleEndian).PutUint32": {1},
	"(encoding/binary.littleEndian).PutUint64": {1},
	"encoding/binary.Read":                     {0, 2},
	"encoding/binary.Write":                    {0},
}

// pointer-receiver stdlib methods that do NOT modify their receiver.
var stdlibPureMethods = map[string]bool{
	"Cmp": true, "CmpAbs": true, "Sign": true, "Bytes": true, "BitLen": true, "Bit": true, "Int64": true,
	"Uint64": true, "IsInt64": true, "IsUint64": true, "Text": true, "String": true, "Bits": true,
	"ProbablyPrime": true, "FillBytes": true, "Append": true, "Format": true, "TrailingZeroBits": true,
	"Len": true, "Cap": true, "Equal": true, "Error": true, "Before": true, "After": true, "IsZero": true,
	"Unix": true, "Params": true, "IsOnCurve": true, "Add_": true, "Empty": true, "Size": true, "BlockSize": true,
	"Load": true, "RLock": false, "Subjects": true, "Public": true, "Name": true, "Peek": true,
	"Marshal": true, "MarshalText": true, "MarshalJSON": true, "MarshalBinary": true, "HasPrefix": true,
}

func (fx *FX) stdlibWrites(f *ssa.Function, in ssa.CallInstruction, cc *ssa.CallCommon, addW func(rootSet, witness), seen map[ssa.Value]bool) {
	if cc.IsInvoke() {
		// interface call: library behaviour of the interface contract
		idxs, ok := ifaceMethodWrites[cc.Method.Name()]
		if !ok {
			return
		}
		for _, i := range idxs {
			var a ssa.Value
			if i == -1 {
				a = cc.Value
			} else if i < len(cc.Args) {
				a = cc.Args[i]
			}
			if a != nil {
				addW(fx.trace(f, a, 0, seen), witness{in.Pos(), "interface call " + cc.Method.Name(), nil})
			}
		}
		return
	}
	sc := cc.StaticCallee()
	if sc == nil || inRepo(sc) {
		return
	}
	id := calleeID(cc)
	if idxs, ok := stdlibFuncWrites[id]; ok {
		for _, i := range idxs {
			if i < len(cc.Args) {
				addW(fx.trace(f, cc.Args[i], 0, seen), witness{in.Pos(), "call " + id, nil})
			}
		}
		return
	}
	// parameters named dst/out/buf of slice type are written
	sig := sc.Signature
	off := 0
	if sig.Recv() != nil {
		off = 1
		// cryptobyte.String readers advance the slice HEADER they are called on; the bytes it points to are only read
		headerOnly := strings.HasPrefix(id, "(*golang.org/x/crypto/cryptobyte.String).") && (strings.HasPrefix(sc.Name(), "Read") || strings.HasPrefix(sc.Name(), "Skip") || strings.HasPrefix(sc.Name(), "Peek") || strings.HasPrefix(sc.Name(), "Copy"))
		if _, isPtr := sig.Recv().Type().(*types.Pointer); isPtr && !stdlibPureMethods[sc.Name()] && len(cc.Args) > 0 && !headerOnly {
			addW(fx.trace(f, cc.Args[0], 0, seen), witness{in.Pos(), "call " + id + " (pointer-receiver library method)", nil})
		}
	}
	for i := 0; i < sig.Params().Len(); i++ {
		p := sig.Params().At(i)
		if _, isSl := p.Type().Underlying().(*types.Slice); !isSl {
			continue
		}
		if id == "(*math/big.Int).SetBytes" {
			continue // SetBytes(buf) reads buf
		}
		switch p.Name() {
		case "dst", "out", "buf":
			if i+off < len(cc.Args) {
				addW(fx.trace(f, cc.Args[i+off], 0, seen), witness{in.Pos(), "call " + id + " (param " + p.Name() + ")", nil})
			}
		}
	}
}

// describe a write for reports
func (fx *FX) describe(r root, w witness) string {
	s := r.String() + " ← " + w.What
	if w.Pos.IsValid() {
		s += " at " + fx.p.pos(w.Pos)
	}
	return s
}

// sortedRoots gives deterministic order
func sortedRoots(m map[root]witness) []root {
	var rs []root
	for r := range m {
		rs = append(rs, r)
	}
	sort.Slice(rs, func(i, j int) bool { return rs[i].String() < rs[j].String() })
	return rs
}
