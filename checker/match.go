package main

// match.go: small structural matchers over SSA values (xor trees, affine
// index forms, byte lanes, rotations).

import (
	"go/token"
	"go/types"

	"golang.org/x/tools/go/ssa"
)

// opLeaves flattens a tree of BinOps with operator op into its leaves.
func opLeaves(v ssa.Value, op token.Token) []ssa.Value {
	if b, ok := v.(*ssa.BinOp); ok && b.Op == op {
		return append(opLeaves(b.X, op), opLeaves(b.Y, op)...)
	}
	return []ssa.Value{v}
}

// affine form: sum coef[v]*v + k over "atoms" (phis, params, other values)
type affine struct {
	coef map[ssa.Value]int64
	k    int64
	ok   bool
}

func affineOf(v ssa.Value) affine {
	if c, ok := constInt(v); ok {
		return affine{coef: map[ssa.Value]int64{}, k: c, ok: true}
	}
	switch x := v.(type) {
	case *ssa.BinOp:
		a, b := affineOf(x.X), affineOf(x.Y)
		switch x.Op {
		case token.ADD:
			return affAdd(a, b, 1)
		case token.SUB:
			return affAdd(a, b, -1)
		case token.MUL:
			if len(a.coef) == 0 {
				return affScale(b, a.k)
			}
			if len(b.coef) == 0 {
				return affScale(a, b.k)
			}
		case token.SHL:
			if len(b.coef) == 0 && b.k >= 0 && b.k < 31 {
				return affScale(a, 1<<uint(b.k))
			}
		}
	case *ssa.Convert:
		// int<->uint conversions of small loop counters keep the value
		if isIntType(x.X.Type()) && isIntType(x.Type()) {
			return affineOf(x.X)
		}
	}
	return affine{coef: map[ssa.Value]int64{v: 1}, ok: true}
}

func isIntType(t types.Type) bool {
	b, ok := t.Underlying().(*types.Basic)
	return ok && b.Info()&types.IsInteger != 0
}

func affAdd(a, b affine, sign int64) affine {
	r := affine{coef: map[ssa.Value]int64{}, k: a.k + sign*b.k, ok: a.ok && b.ok}
	for v, c := range a.coef {
		r.coef[v] += c
	}
	for v, c := range b.coef {
		r.coef[v] += sign * c
	}
	for v, c := range r.coef {
		if c == 0 {
			delete(r.coef, v)
		}
	}
	return r
}

func affScale(a affine, s int64) affine {
	r := affine{coef: map[ssa.Value]int64{}, k: a.k * s, ok: a.ok}
	for v, c := range a.coef {
		if c*s != 0 {
			r.coef[v] = c * s
		}
	}
	return r
}

// eval evaluates the affine form given values for atoms; ok=false if an atom is unbound.
func (a affine) eval(env map[ssa.Value]int64) (int64, bool) {
	s := a.k
	for v, c := range a.coef {
		x, ok := env[v]
		if !ok {
			return 0, false
		}
		s += c * x
	}
	return s, true
}

// byteLane recognises expressions selecting byte k of a 32-bit word:
// (x>>8k)&0xff, x>>24, x&0xff, uint8(x>>8k), byte(x) — returns (x, k).
func byteLane(v ssa.Value) (ssa.Value, int, bool) {
	v = stripConvAll(v)
	masked := false
	if b, ok := v.(*ssa.BinOp); ok && b.Op == token.AND {
		if c, ok := constInt(b.Y); ok && c == 0xff {
			v = stripConvAll(b.X)
			masked = true
		} else if c, ok := constInt(b.X); ok && c == 0xff {
			v = stripConvAll(b.Y)
			masked = true
		}
	}
	if b, ok := v.(*ssa.BinOp); ok && b.Op == token.SHR {
		if c, ok := constInt(b.Y); ok && c%8 == 0 && c >= 0 && c <= 56 {
			if masked || (c == 24 && isU32(b.X.Type())) || narrowed8(v) {
				return b.X, int(c / 8), true
			}
		}
	}
	if masked {
		return v, 0, true
	}
	return nil, 0, false
}

// narrowed8: value is subsequently converted to an 8-bit type by its only referrer — approximated as false here.
func narrowed8(v ssa.Value) bool { return false }

// stripConvAll strips Convert/ChangeType wrappers.
func stripConvAll(v ssa.Value) ssa.Value {
	for {
		switch x := v.(type) {
		case *ssa.Convert:
			v = x.X
		case *ssa.ChangeType:
			v = x.X
		default:
			return v
		}
	}
}

// byteLaneOfConv: like byteLane but also accepts uint8(x>>8k) (the conversion
// does the masking). Returns (x,k).
func byteLaneConv(v ssa.Value) (ssa.Value, int, bool) {
	if x, k, ok := byteLane(v); ok {
		return x, k, true
	}
	if cv, ok := v.(*ssa.Convert); ok {
		if b, ok := cv.Type().Underlying().(*types.Basic); ok && (b.Kind() == types.Uint8) {
			in := cv.X
			if sh, ok := in.(*ssa.BinOp); ok && sh.Op == token.SHR {
				if c, ok := constInt(sh.Y); ok && c%8 == 0 && c >= 0 && c <= 56 {
					return sh.X, int(c / 8), true
				}
			}
			return in, 0, true
		}
	}
	return nil, 0, false
}

// loadOfIndex: v is *(&base[idx]) or base[idx]; returns base, idx.
func loadOfIndex(v ssa.Value) (base, idx ssa.Value, ok bool) {
	switch x := v.(type) {
	case *ssa.UnOp:
		if x.Op == token.MUL {
			if ia, ok := x.X.(*ssa.IndexAddr); ok {
				return ia.X, ia.Index, true
			}
		}
	case *ssa.Index:
		return x.X, x.Index, true
	}
	return nil, nil, false
}

// globalOf: if v is a *ssa.Global or a load of it, return it.
func globalOf(v ssa.Value) *ssa.Global {
	switch x := v.(type) {
	case *ssa.Global:
		return x
	case *ssa.UnOp:
		if x.Op == token.MUL {
			if g, ok := x.X.(*ssa.Global); ok {
				return g
			}
		}
	}
	return nil
}

// inductionVar describes phi = [init, phi+step] with constant init and step.
type induction struct {
	phi        *ssa.Phi
	init, step int64
}

func inductionOf(phi *ssa.Phi) (induction, bool) {
	if len(phi.Edges) != 2 {
		return induction{}, false
	}
	for i := 0; i < 2; i++ {
		init, ok := constInt(phi.Edges[i])
		if !ok {
			continue
		}
		a := affineOf(phi.Edges[1-i])
		if len(a.coef) == 1 && a.coef[phi] == 1 {
			return induction{phi, init, a.k}, true
		}
	}
	return induction{}, false
}

// loopBound: for a loop headed by the block of phi, finds `phi < N` / `phi <= N`
// / `phi != N` conditions controlling the loop; returns exclusive upper bound.
func loopBound(ind induction) (int64, bool) {
	b := ind.phi.Block()
	ifi, ok := lastIf(b)
	if !ok {
		return 0, false
	}
	cmp, ok := ifi.Cond.(*ssa.BinOp)
	if !ok {
		return 0, false
	}
	if stripConvAll(cmp.X) != ssa.Value(ind.phi) {
		return 0, false
	}
	n, ok := constInt(cmp.Y)
	if !ok {
		return 0, false
	}
	switch cmp.Op {
	case token.LSS, token.NEQ:
		return n, true
	case token.LEQ:
		return n + 1, true
	}
	return 0, false
}

// iterCount: one pseudo-variable per loop header — the number of back-edge traversals so far. Two induction variables
// of the same header (i from 0 by 1, off from 0 by 4) advance together, so both are affine in it: off == 4*i.
var iterCount = map[*ssa.BasicBlock]*ssa.Parameter{}

// affNormInd rewrites every induction phi in a (constant init, constant step) as init + step*t, t the iteration count
// of the phi's loop header; differences between co-advancing counters then cancel.
func affNormInd(a affine) affine {
	r := affine{coef: map[ssa.Value]int64{}, k: a.k, ok: a.ok}
	for v, c := range a.coef {
		phi, ok := v.(*ssa.Phi)
		if ok {
			if ind, ok := inductionOf(phi); ok {
				t := iterCount[phi.Block()]
				if t == nil {
					t = new(ssa.Parameter)
					iterCount[phi.Block()] = t
				}
				r.k += c * ind.init
				r.coef[t] += c * ind.step
				continue
			}
		}
		r.coef[v] += c
	}
	for v, c := range r.coef {
		if c == 0 {
			delete(r.coef, v)
		}
	}
	return r
}
