package main

// bigcanon.go — canonical values of math/big objects at a program point,
// reconstructed from the object's mutation history (dominance based, static).
// x.Add(x, e); x.Mod(x, N); x.Cmp(r)  ==>  value(x) at Cmp = mod(add(x0,e),N)

import (
	"fmt"
	"go/token"
	"go/types"
	"strings"

	"golang.org/x/tools/go/ssa"
)

type bigEnv struct {
	phiBusy  map[*ssa.Phi]bool
	f        *ssa.Function
	names    map[ssa.Value]string // leaves (params, fields…)
	cenv     *canonEnv
	depth    int
	lenDepth int
	lenConst map[string]int64 // byte-string lengths fixed by an assumption ("len(IV)" -> 12)
	globs    map[string]*X    // known constant big globals ("pkgpath.one" -> K(1))
}

func newBigEnv(f *ssa.Function, names map[ssa.Value]string) *bigEnv {
	ce := newCanon(names)
	ce.bool3 = false
	return &bigEnv{f: f, names: names, cenv: ce, globs: map[string]*X{}}
}

func isBigIntPtr(t types.Type) bool {
	p, ok := t.(*types.Pointer)
	if !ok {
		return false
	}
	return namedTypeString(p.Elem()) == "math/big.Int"
}

// bigMethod: call is (*big.Int).M(recv, args...) — returns name, recv, args
func bigMethod(v ssa.Value) (call *ssa.Call, name string, recv ssa.Value, args []ssa.Value, ok bool) {
	call, ok = v.(*ssa.Call)
	if !ok {
		return
	}
	sc := call.Call.StaticCallee()
	if sc == nil || sc.Signature.Recv() == nil || !isBigIntPtr(sc.Signature.Recv().Type()) {
		return nil, "", nil, nil, false
	}
	return call, sc.Name(), call.Call.Args[0], call.Call.Args[1:], true
}

// mutating big.Int method: returns *big.Int (the receiver)
func bigMutator(call *ssa.Call) bool {
	sc := call.Call.StaticCallee()
	if sc == nil {
		return false
	}
	res := sc.Signature.Results()
	if res.Len() == 0 {
		return false
	}
	if !isBigIntPtr(res.At(0).Type()) {
		return false
	}
	switch sc.Name() {
	case "Bits":
		return false
	}
	return true
}

// objOf: identity of the big.Int object a value points to.
func objOf(v ssa.Value) ssa.Value {
	for i := 0; i < 50; i++ {
		if call, _, recv, _, ok := bigMethod(v); ok && bigMutator(call) {
			v = recv
			continue
		}
		if ex, ok := v.(*ssa.Extract); ok {
			// SetString returns (z, ok)
			if call, _, recv, _, ok := bigMethod(ex.Tuple); ok && bigMutator(call) && ex.Index == 0 {
				v = recv
				continue
			}
		}
		return v
	}
	return v
}

// mutators of object o in f
func (e *bigEnv) mutatorsOf(o ssa.Value) []*ssa.Call {
	var out []*ssa.Call
	instrsOf(e.f, func(_ *ssa.BasicBlock, in ssa.Instruction) {
		call, ok := in.(*ssa.Call)
		if !ok {
			return
		}
		if c2, _, recv, _, ok := bigMethod(call); ok && bigMutator(c2) && objOf(recv) == o {
			out = append(out, call)
		}
	})
	return out
}

// blockReaches: can control flow from the end of instruction a reach instruction b,
// without passing through instruction `avoid` (may be nil)?
func instrReaches(a, b, avoid ssa.Instruction) bool {
	if a.Block() == b.Block() && instrIndex(a) < instrIndex(b) {
		if avoid != nil && avoid.Block() == a.Block() && instrIndex(avoid) > instrIndex(a) && instrIndex(avoid) < instrIndex(b) {
			// straight line passes avoid; other paths may exist via loop
		} else {
			return true
		}
	}
	// leave a's block, travel, enter b's block from the top
	cutBlock := (*ssa.BasicBlock)(nil)
	if avoid != nil {
		ab := avoid.Block()
		switch {
		case ab == b.Block() && instrIndex(avoid) < instrIndex(b):
			return false // every entry into b's block from the top passes avoid
		case ab == a.Block() && instrIndex(avoid) > instrIndex(a):
			return false // leaving a's block passes avoid
		default:
			cutBlock = ab
		}
	}
	seen := map[*ssa.BasicBlock]bool{}
	var stack []*ssa.BasicBlock
	for _, s := range a.Block().Succs {
		if s != cutBlock && !seen[s] {
			seen[s] = true
			stack = append(stack, s)
		}
	}
	for len(stack) > 0 {
		x := stack[len(stack)-1]
		stack = stack[:len(stack)-1]
		if x == b.Block() {
			return true
		}
		for _, s := range x.Succs {
			if s != cutBlock && !seen[s] {
				seen[s] = true
				stack = append(stack, s)
			}
		}
	}
	return false
}

// valueAt: canonical value of the big.Int that v points to, just before instruction `at`.
func (e *bigEnv) valueAt(v ssa.Value, at ssa.Instruction) *X {
	if e.depth > 40 {
		return L("?deep")
	}
	e.depth++
	defer func() { e.depth-- }()
	if n, ok := e.names[v]; ok {
		return L(n)
	}
	o := objOf(v)
	var defInstr ssa.Instruction
	if di, ok := o.(ssa.Instruction); ok {
		defInstr = di
	}
	var last *ssa.Call
	for _, m := range e.mutatorsOf(o) {
		if ssa.Instruction(m) == at {
			continue
		}
		if instrDominates(m, at) {
			if last == nil || instrDominates(last, m) {
				last = m
			}
			continue
		}
		if instrReaches(m, at, defInstr) {
			return L("?merge(" + e.initial(o, at).String() + ")")
		}
	}
	// a dominating mutator may be followed by a loop-carried one that also reaches
	if last != nil {
		for _, m := range e.mutatorsOf(o) {
			if m != last && !instrDominates(m, at) && instrReaches(m, at, defInstr) {
				return L("?merge")
			}
			// mutators after `at` in a loop reaching back
			if m != last && instrDominates(m, at) == false && m.Block() == at.Block() {
				continue
			}
		}
		// also mutators that dominate `at` but come after `last` were handled by the max; mutators
		// after `at` that loop back to `at` without passing the definition:
		for _, m := range e.mutatorsOf(o) {
			if ssa.Instruction(m) != at && instrDominates(at, m) && instrReaches(m, at, defInstr) {
				return L("?loop")
			}
		}
		_, name, _, args, _ := bigMethod(last)
		xs := make([]*X, 0, len(args))
		for _, a := range args {
			if isBigIntPtr(a.Type()) {
				xs = append(xs, e.valueAt(a, last))
			} else if isByteSlice(a.Type()) {
				xs = append(xs, e.bytesOf(a, last))
			} else {
				xs = append(xs, e.plain(a, last))
			}
		}
		return bigOp(name, xs)
	}
	for _, m := range e.mutatorsOf(o) {
		if ssa.Instruction(m) != at && instrDominates(at, m) && instrReaches(m, at, defInstr) {
			return L("?loop")
		}
	}
	return e.initial(o, at)
}

func bigOp(name string, xs []*X) *X {
	switch name {
	case "Add":
		return Op("add", xs...)
	case "Mul":
		return Op("mul", xs...)
	case "Sub":
		return Op("sub", xs...)
	case "Mod":
		return Op("mod", xs...)
	case "ModInverse":
		return Op("modinv", xs...)
	case "SetBytes":
		return Op("frombytes", xs...)
	case "SetInt64", "SetUint64", "Set":
		if len(xs) == 1 {
			return xs[0]
		}
	}
	return Op("big."+name, xs...)
}

// initial value of object o
func (e *bigEnv) initial(o ssa.Value, at ssa.Instruction) *X {
	if n, ok := e.names[o]; ok {
		return L(n)
	}
	switch x := o.(type) {
	case *ssa.Alloc:
		return K(0)
	case *ssa.Parameter:
		return L("param:" + pname(x))
	case *ssa.UnOp:
		if x.Op == token.MUL {
			switch a := x.X.(type) {
			case *ssa.Global:
				key := a.Pkg.Pkg.Path() + "." + a.Name()
				if v, ok := e.globs[key]; ok {
					return v
				}
				v := bigGlobalConst(a)
				e.globs[key] = v
				return v
			case *ssa.FieldAddr:
				return L(e.fieldPath(a))
			case *ssa.Alloc:
				// local variable holding a *big.Int: single store?
				var st *ssa.Store
				n := 0
				for _, u := range *a.Referrers() {
					if s, ok := u.(*ssa.Store); ok && s.Addr == ssa.Value(a) {
						st = s
						n++
					}
				}
				if n == 1 {
					return e.valueAt(st.Val, at)
				}
			}
		}
	case *ssa.Field:
		return L(e.cenv.canon(x).String())
	case *ssa.Extract:
		return Op("res"+string(rune('0'+x.Index)), e.plain(x.Tuple, at))
	case *ssa.Call:
		return e.plain(x, at)
	case *ssa.Phi:
		return L("?phi")
	case *ssa.Const:
		return L("nil")
	}
	return L("?" + o.Name())
}

func (e *bigEnv) fieldPath(fa *ssa.FieldAddr) string {
	name := fieldName(fa.X.Type(), fa.Field)
	switch b := fa.X.(type) {
	case *ssa.FieldAddr:
		return e.fieldPath(b) + "." + name
	case *ssa.Parameter:
		if n, ok := e.names[b]; ok {
			return n + "." + name
		}
		return "param:" + pname(b) + "." + name
	case *ssa.Call:
		// c.Params().N
		return strings.TrimPrefix(e.plain(b, nil).String(), "call:") + "." + name
	case *ssa.UnOp:
		if fa2, ok := b.X.(*ssa.FieldAddr); ok {
			return e.fieldPath(fa2) + "." + name
		}
		if g, ok := b.X.(*ssa.Global); ok {
			return "global:" + g.Name() + "." + name
		}
		if _, ok := b.X.(*ssa.IndexAddr); ok {
			return e.cenv.canon(b).String() + "." + name
		}
		if n, ok := e.names[b]; ok {
			return n + "." + name
		}
	case *ssa.Phi:
		if n, ok := e.names[b]; ok {
			return n + "." + name
		}
	case *ssa.IndexAddr:
		return e.cenv.canon(b).String() + "." + name
	case *ssa.Global:
		return "global:" + b.Name() + "." + name
	case *ssa.Field:
		return e.valuePath(b) + "." + name
	case *ssa.Alloc:
		// a struct variable initialised once from a value (a by-value parameter, a call result) and only read afterwards
		if v := structInit(b); v != nil {
			if n, ok := e.names[v]; ok {
				return n + "." + name
			}
			switch v.(type) {
			case *ssa.Parameter, *ssa.Call, *ssa.Extract:
				return strings.TrimPrefix(e.plain(v, nil).String(), "call:") + "." + name
			}
		}
		if pt, ok := b.Type().Underlying().(*types.Pointer); ok {
			return "local(" + shortType(pt.Elem()) + ")." + name
		}
	}
	if n, ok := e.names[fa.X]; ok {
		return n + "." + name
	}
	return fmt.Sprintf("?%T.", fa.X) + name
}

// valuePath: path of a struct value (Field of a loaded struct)
func (e *bigEnv) valuePath(v ssa.Value) string {
	if n, ok := e.names[v]; ok {
		return n
	}
	switch x := v.(type) {
	case *ssa.Field:
		st, _ := x.X.Type().Underlying().(*types.Struct)
		n := "?"
		if st != nil && x.Field < st.NumFields() {
			n = st.Field(x.Field).Name()
		}
		return e.valuePath(x.X) + "." + n
	case *ssa.UnOp:
		if g, ok := x.X.(*ssa.Global); ok {
			return "global:" + g.Name()
		}
		if fa, ok := x.X.(*ssa.FieldAddr); ok {
			return e.fieldPath(fa)
		}
	case *ssa.Parameter:
		return "param:" + pname(x)
	}
	return fmt.Sprintf("?%T", v)
}

// plain: canonical form of a value; big sub-values (k.Bytes(), curve ops) are expanded.
func (e *bigEnv) plain(v ssa.Value, at ssa.Instruction) *X {
	if e.depth > 60 {
		return L("?deep")
	}
	e.depth++
	defer func() { e.depth-- }()
	if n, ok := e.names[v]; ok {
		return L(n)
	}
	switch x := v.(type) {
	case *ssa.Call:
		var where ssa.Instruction = x
		if call, name, recv, args, ok := bigMethod(x); ok {
			if bigMutator(call) {
				// value of the receiver right after this call
				xs := make([]*X, 0, len(args))
				for _, a := range args {
					if isBigIntPtr(a.Type()) {
						xs = append(xs, e.valueAt(a, where))
					} else if isByteSlice(a.Type()) {
						xs = append(xs, e.bytesOf(a, where))
					} else {
						xs = append(xs, e.plain(a, where))
					}
				}
				return bigOp(name, xs)
			}
			xs := []*X{e.valueAt(recv, where)}
			for _, a := range args {
				if isBigIntPtr(a.Type()) {
					xs = append(xs, e.valueAt(a, where)) // the argument's value at the call, after its in-place updates
				} else {
					xs = append(xs, e.plain(a, where))
				}
			}
			return Op(strings.ToLower(name), xs...)
		}
		cc := &x.Call
		name := ""
		var args []ssa.Value
		if cc.IsInvoke() {
			name = cc.Method.Name()
			args = cc.Args
		} else if sc := cc.StaticCallee(); sc != nil {
			name = strings.ReplaceAll(calleeID(cc), modPath+"/", "")
			args = cc.Args
		} else if bi, ok := cc.Value.(*ssa.Builtin); ok {
			xs := make([]*X, len(cc.Args))
			for i, a := range cc.Args {
				if isByteSlice(a.Type()) {
					xs[i] = e.bytesOf(a, where)
				} else {
					xs[i] = e.plain(a, where)
				}
			}
			return Op(bi.Name(), xs...)
		} else {
			return L("?dyncall")
		}
		xs := make([]*X, len(args))
		for i, a := range args {
			xs[i] = e.plain(a, where)
		}
		return Op("call:"+name, xs...)
	case *ssa.Extract:
		if ta, ok := x.Tuple.(*ssa.TypeAssert); ok && x.Index == 0 {
			return Op("as:"+shortType(ta.AssertedType), e.plain(ta.X, at))
		}
		return Op("res"+string(rune('0'+x.Index)), e.plain(x.Tuple, at))
	case *ssa.TypeAssert:
		if !x.CommaOk {
			return Op("as:"+shortType(x.AssertedType), e.plain(x.X, at))
		}
	case *ssa.UnOp:
		if x.Op == token.MUL {
			if fa, ok := x.X.(*ssa.FieldAddr); ok && !isBigIntPtr(v.Type()) {
				return L(e.fieldPath(fa))
			}
		}
		if x.Op == token.NOT {
			return Op("lnot", e.plain(x.X, at))
		}
		if x.Op == token.MUL {
			if al, ok := x.X.(*ssa.Alloc); ok {
				if v := singleStore(al); v != nil {
					return e.plain(v, at)
				}
			}
		}
	case *ssa.BinOp:
		if name, ok := canonBinOps[x.Op]; ok {
			return Op(name, e.plain(x.X, at), e.plain(x.Y, at))
		}
	case *ssa.Slice:
		lo, hi := L("_"), L("_")
		if x.Low != nil {
			lo = e.plain(x.Low, at)
		}
		if x.High != nil {
			hi = e.plain(x.High, at)
		}
		return Op("slice", e.plain(x.X, at), lo, hi)
	case *ssa.MakeSlice:
		return Op("make", e.plain(x.Len, at))
	case *ssa.Convert:
		if isIntType(x.Type()) && isIntType(x.X.Type()) {
			tb := x.Type().Underlying().(*types.Basic)
			sb := x.X.Type().Underlying().(*types.Basic)
			if intBits(tb) < intBits(sb) {
				return Op(fmt.Sprintf("trunc%d", intBits(tb)), e.plain(x.X, at))
			}
			return e.plain(x.X, at)
		}
	case *ssa.ChangeType:
		return e.plain(x.X, at)
	case *ssa.MakeInterface:
		return e.plain(x.X, at)
	case *ssa.ChangeInterface:
		return e.plain(x.X, at)
	}
	if isBigIntPtr(v.Type()) && at != nil {
		return e.valueAt(v, at)
	}
	return e.cenv.canon(v)
}

// bigGlobalConst: value of a package-level *big.Int initialised in init as new(big.Int).SetInt64(k)
func bigGlobalConst(g *ssa.Global) *X {
	if g.Pkg == nil {
		return L("global:" + g.Name())
	}
	initf := g.Pkg.Func("init")
	if initf == nil {
		return L("global:" + g.Name())
	}
	var res *X
	n := 0
	instrsOf(initf, func(_ *ssa.BasicBlock, in ssa.Instruction) {
		s, ok := in.(*ssa.Store)
		if !ok || s.Addr != ssa.Value(g) {
			return
		}
		n++
		if call, name, _, args, ok := bigMethod(s.Val); ok && (name == "SetInt64" || name == "SetUint64") && len(args) == 1 {
			_ = call
			if k, ok := constInt(args[0]); ok {
				res = K(uint64(k))
			}
		}
	})
	// any store outside init makes it non-constant
	for _, m := range g.Pkg.Members {
		if f, ok := m.(*ssa.Function); ok && f != initf {
			instrsOf(f, func(_ *ssa.BasicBlock, in ssa.Instruction) {
				if s, ok := in.(*ssa.Store); ok && s.Addr == ssa.Value(g) {
					n += 100
				}
			})
		}
	}
	if res != nil && n == 1 {
		return res
	}
	return L("global:" + g.Name())
}

// singleStore: the one value ever stored into a local cell (variables captured by closures are spilled to
// such cells); nil if there are several stores or the cell's address escapes other than into closures/loads.
func singleStore(al *ssa.Alloc) ssa.Value {
	var v ssa.Value
	n := 0
	for _, u := range *al.Referrers() {
		switch x := u.(type) {
		case *ssa.Store:
			if x.Addr == ssa.Value(al) {
				v = x.Val
				n++
			}
		case *ssa.UnOp, *ssa.MakeClosure, *ssa.DebugRef:
		default:
			return nil
		}
	}
	if n == 1 {
		// closures capturing the cell must not store to it
		for _, u := range *al.Referrers() {
			if mc, ok := u.(*ssa.MakeClosure); ok {
				fn := mc.Fn.(*ssa.Function)
				for i, b := range mc.Bindings {
					if b != ssa.Value(al) {
						continue
					}
					fv := fn.FreeVars[i]
					for _, u2 := range *fv.Referrers() {
						if st, ok := u2.(*ssa.Store); ok && st.Addr == ssa.Value(fv) {
							return nil
						}
					}
				}
			}
		}
		return v
	}
	return nil
}

// structInit: the value a struct cell was initialised with, when the cell is stored exactly once as a whole
// and afterwards only read (loads and field loads; no field stores, no escape)
func structInit(al *ssa.Alloc) ssa.Value {
	var v ssa.Value
	n := 0
	var readOnly func(addr ssa.Value) bool
	readOnly = func(addr ssa.Value) bool {
		for _, u := range *addr.Referrers() {
			switch x := u.(type) {
			case *ssa.Store:
				if x.Addr == addr && addr == ssa.Value(al) {
					v = x.Val
					n++
					continue
				}
				return false
			case *ssa.UnOp:
				if x.Op != token.MUL {
					return false
				}
			case *ssa.FieldAddr:
				if !readOnly(x) {
					return false
				}
			case *ssa.DebugRef:
			default:
				return false
			}
		}
		return true
	}
	if !readOnly(al) || n != 1 {
		return nil
	}
	return v
}
