package main

// bounds.go — engine B (LinBounds): a small path-sensitive linear-inequality
// prover for index/slice/make sites. Facts come from dominating branch edges,
// from definitions (len of slices/appends/makes, byte ranges, masks, shifts,
// quotients/remainders by constants, counted-loop induction), and from a few
// library contracts; goals are refuted by Fourier–Motzkin elimination with
// integer tightening. Phi-defined lengths/indices are handled by case
// splitting over incoming edges. Verdicts are only ever used to *discharge*
// an obligation; "not proven" is reported, never silently accepted.

import (
	"fmt"
	"go/token"
	"go/types"
	"golang.org/x/tools/go/ssa/ssautil"
	"os"
	"sort"
	"strconv"
	"strings"

	"golang.org/x/tools/go/ssa"
)

type lvar struct {
	kind int // 0 int value, 1 len(v), 2 cap(v)
	v    ssa.Value
}

type lin struct {
	c map[lvar]int64
	k int64
}

func newLin() lin { return lin{c: map[lvar]int64{}} }

func (a lin) clone() lin {
	b := lin{c: make(map[lvar]int64, len(a.c)), k: a.k}
	for v, c := range a.c {
		b.c[v] = c
	}
	return b
}

func (a lin) addScaled(b lin, s int64) lin {
	r := a.clone()
	r.k += s * b.k
	for v, c := range b.c {
		r.c[v] += s * c
		if r.c[v] == 0 {
			delete(r.c, v)
		}
	}
	return r
}

func (a lin) scale(s int64) lin { return newLin().addScaled(a, s) }

func linConst(k int64) lin { l := newLin(); l.k = k; return l }
func linVar(v lvar) lin    { l := newLin(); l.c[v] = 1; return l }

// constraint: l <= 0 (or, when ne is set, l != 0 — used only to sharpen bounds)
type cons struct {
	l  lin
	ne bool
}

func le(a, b lin) cons    { return cons{l: a.addScaled(b, -1)} }                // a <= b
func lt(a, b lin) cons    { c := a.addScaled(b, -1); c.k++; return cons{l: c} } // a < b  (integers)
func ge(a, b lin) cons    { return le(b, a) }                                   // a >= b
func eqc(a, b lin) []cons { return []cons{le(a, b), le(b, a)} }                 // a == b

type LB struct {
	remBusy       map[ssa.Value]bool
	fieldReps     map[string]ssa.Value
	fieldWritten  map[string]bool
	extra         []cons // facts valid on entry to the function (proved at every call site)
	convSide      map[*ssa.Convert]int
	side          map[*ssa.BinOp]int // 0 unknown, 1 proving, 2 proven, 3 failed
	p             *Prog
	f             *ssa.Function
	maxCons       int
	Proved        int
	Unproved      int
	UsedContracts map[string]bool
	curBlock      *ssa.BasicBlock // block of the obligation being proved
	ovf           bool            // overflow mode: 64-bit +, *, << are linear only when proven not to overflow
}

// repoLenContracts: len(result #result of f) == integer parameter #param. Each entry is
// justified by a structural rule that checks the callee (named in the comment) — an
// assume/guarantee split; if that rule fails the contract is not trusted by the report.
type lenContract struct {
	result, param int
	justifiedBy   string
}

var repoLenContracts = map[string]lenContract{
	"sm2.kdf": {0, 0, "K-C02-kdf (block count ceil(length/32), last block truncated to length%32)"},
}

func intKind(t types.Type) (bits int, unsigned bool, ok bool) {
	b, isB := t.Underlying().(*types.Basic)
	if !isB || b.Info()&types.IsInteger == 0 {
		return 0, false, false
	}
	switch b.Kind() {
	case types.Int8:
		return 8, false, true
	case types.Int16:
		return 16, false, true
	case types.Int32:
		return 32, false, true
	case types.Int64, types.Int:
		return 64, false, true
	case types.Uint8:
		return 8, true, true
	case types.Uint16:
		return 16, true, true
	case types.Uint32:
		return 32, true, true
	case types.Uint64, types.Uint, types.Uintptr:
		return 64, true, true
	case types.UntypedInt, types.UntypedRune:
		return 64, false, true
	}
	return 0, false, false
}

// lenBase: canonical value whose length is meant (strip len-preserving conversions)
func lenBase(v ssa.Value) ssa.Value {
	if r := loadRep(v); r != nil {
		v = r
	}
	if r := paramFieldRep(v); r != nil {
		v = r
	}
	if r := fieldValueRep(v); r != nil {
		v = r
	}
	for {
		if r := storeFwd(v); r != nil {
			v = r
			continue
		}
		switch x := v.(type) {
		case *ssa.ChangeType:
			v = x.X
			continue
		case *ssa.Convert:
			// string <-> []byte keep the length
			_, s1 := x.X.Type().Underlying().(*types.Slice)
			_, s2 := x.Type().Underlying().(*types.Slice)
			b1, isB1 := x.X.Type().Underlying().(*types.Basic)
			b2, isB2 := x.Type().Underlying().(*types.Basic)
			if (s1 && isB2 && b2.Info()&types.IsString != 0) || (s2 && isB1 && b1.Info()&types.IsString != 0) || (s1 && s2) {
				v = x.X
				continue
			}
		}
		return v
	}
}

func isBoolType(t types.Type) bool {
	b, ok := t.Underlying().(*types.Basic)
	return ok && b.Info()&types.IsBoolean != 0
}

func (lb *LB) linOf(v ssa.Value) lin {
	if k, ok := constInt(v); ok {
		return linConst(k)
	}
	// booleans are modelled as 0/1 integers (flags such as `indefinite` that select between exits)
	if cb, ok := constBool(v); ok {
		if cb {
			return linConst(1)
		}
		return linConst(0)
	}
	if r := lb.fieldRep(v); r != nil {
		v = r
	} else if _, _, isInt := intKind(v.Type()); isInt {
		// an integer field reached through a longer path (hs.clientHello.vers) that the function never writes
		if r := fieldValueRep(v); r != nil {
			v = r
		}
	}
	if prm, ok := v.(*ssa.Parameter); ok && len(lb.extra) > 0 {
		// a parameter that has the same constant value at every call site
		if k, ok := pinnedIn(lb.extra, prm); ok {
			return linConst(k)
		}
	}
	switch x := v.(type) {
	case *ssa.BinOp:
		if bits, _, ok := intKind(x.Type()); ok && (bits < 64 || (lb.ovf && x.Op != token.ADD) || (lb.ovf && x.Op == token.ADD && !lb.smallAdd(x))) && (x.Op == token.ADD || x.Op == token.MUL || x.Op == token.SHL) {
			// arithmetic in a narrow type wraps: linear only when the exact result provably fits the type
			if !lb.wrapOK(x) {
				return linVar(lvar{0, v})
			}
		}
		switch x.Op {
		case token.ADD:
			return lb.linOf(x.X).addScaled(lb.linOf(x.Y), 1)
		case token.SUB:
			if _, uns, _ := intKind(x.Type()); !uns {
				return lb.linOf(x.X).addScaled(lb.linOf(x.Y), -1)
			}
			// unsigned: linear only if the subtraction cannot wrap — recorded as a side condition
			if lb.sideOK(x) {
				return lb.linOf(x.X).addScaled(lb.linOf(x.Y), -1)
			}
		case token.MUL:
			a, b := lb.linOf(x.X), lb.linOf(x.Y)
			if len(a.c) == 0 && abs64(a.k) < 1<<20 {
				return b.scale(a.k)
			}
			if len(b.c) == 0 && abs64(b.k) < 1<<20 {
				return a.scale(b.k)
			}
		case token.SHL:
			if k, ok := constInt(x.Y); ok && k >= 0 && k < 24 {
				return lb.linOf(x.X).scale(1 << uint(k))
			}
		}
	case *ssa.Convert:
		sb, su, ok1 := intKind(x.X.Type())
		db, du, ok2 := intKind(x.Type())
		if ok1 && ok2 {
			if db > sb && (su || !du) {
				return lb.linOf(x.X)
			}
			if db == sb && su == du {
				return lb.linOf(x.X)
			}
			if db == sb && db == 64 && su && !du {
				return lb.linOf(x.X) // uint -> int: assumes < 2^63
			}
			if db >= sb && !su && du && lb.convOK(x) {
				return lb.linOf(x.X) // int -> uint of a provably non-negative value
			}
		}
	case *ssa.ChangeType:
		return lb.linOf(x.X)
	case *ssa.Call:
		if bi, ok := x.Call.Value.(*ssa.Builtin); ok {
			switch bi.Name() {
			case "len":
				a := x.Call.Args[0]
				if n, ok := staticLen(a.Type()); ok {
					return linConst(n)
				}
				return linVar(lvar{1, lenBase(a)})
			case "cap":
				a := x.Call.Args[0]
				if n, ok := staticLen(a.Type()); ok {
					return linConst(n)
				}
				return linVar(lvar{2, lenBase(a)})
			}
		}
	}
	return linVar(lvar{0, v})
}

// convOK: the signed operand of an int->uint conversion is provably non-negative at its program point
func (lb *LB) convOK(x *ssa.Convert) bool {
	if lb.convSide == nil {
		lb.convSide = map[*ssa.Convert]int{}
	}
	switch lb.convSide[x] {
	case 1, 3:
		return false
	case 2:
		return true
	}
	lb.convSide[x] = 1
	var blk *ssa.BasicBlock = x.Block()
	ok := lb.prove([]cons{ge(lb.linOf(x.X), linConst(0))}, blk, nil, map[lvar]lin{}, 2)
	if ok {
		lb.convSide[x] = 2
	} else {
		lb.convSide[x] = 3
	}
	return ok
}

// fieldRep: all loads of the same field of the same base object denote one value when the function
// (and its callees, per the effect summaries) never writes that field: returns a representative load.
func (lb *LB) fieldRep(v ssa.Value) ssa.Value {
	ld, ok := v.(*ssa.UnOp)
	if !ok || ld.Op != token.MUL {
		return nil
	}
	fa, ok := ld.X.(*ssa.FieldAddr)
	if !ok {
		return nil
	}
	if _, isParam := fa.X.(*ssa.Parameter); !isParam {
		return nil
	}
	if _, _, isInt := intKind(ld.Type()); !isInt {
		return nil
	}
	if lb.fieldReps == nil {
		lb.fieldReps = map[string]ssa.Value{}
		lb.fieldWritten = map[string]bool{}
		f := ld.Parent()
		instrsOf(f, func(_ *ssa.BasicBlock, in ssa.Instruction) {
			if st, ok := in.(*ssa.Store); ok {
				if fa2, ok := st.Addr.(*ssa.FieldAddr); ok {
					lb.fieldWritten[fmt.Sprintf("%p.%d", fa2.X, fa2.Field)] = true
				}
			}
		})
		// callees writing the receiver's fields
		if fxCache != nil {
			for r := range fxCache.Writes(f) {
				if r.Kind == rkParam {
					if r.Field == "" {
						lb.fieldWritten[fmt.Sprintf("param%d.*", r.Idx)] = true
					} else {
						lb.fieldWritten[fmt.Sprintf("param%d.%s", r.Idx, r.Field)] = true
					}
				}
			}
		}
	}
	key := fmt.Sprintf("%p.%d", fa.X, fa.Field)
	if lb.fieldWritten[key] {
		return nil
	}
	if fxCache != nil {
		f := ld.Parent()
		for i, prm := range f.Params {
			if ssa.Value(prm) == fa.X {
				if lb.fieldWritten[fmt.Sprintf("param%d.*", i)] || lb.fieldWritten[fmt.Sprintf("param%d.%s", i, fieldName(fa.X.Type(), fa.Field))] {
					return nil
				}
			}
		}
	} else {
		return nil
	}
	if r, ok := lb.fieldReps[key]; ok {
		return r
	}
	lb.fieldReps[key] = v
	return v
}

// wrapOK: the exact (unbounded) value of a narrow-typed x.X op x.Y provably lies in the type's range
func (lb *LB) wrapOK(x *ssa.BinOp) bool {
	if lb.side == nil {
		lb.side = map[*ssa.BinOp]int{}
	}
	switch lb.side[x] {
	case 1, 3:
		return false
	case 2:
		return true
	}
	lb.side[x] = 1
	bits, uns, _ := intKind(x.Type())
	a, b := lb.linOf(x.X), lb.linOf(x.Y)
	var exact lin
	okExact := true
	switch x.Op {
	case token.ADD:
		exact = a.addScaled(b, 1)
	case token.MUL:
		switch {
		case len(a.c) == 0 && abs64(a.k) < 1<<20:
			exact = b.scale(a.k)
		case len(b.c) == 0 && abs64(b.k) < 1<<20:
			exact = a.scale(b.k)
		default:
			okExact = false
		}
	case token.SHL:
		if k, ok := constInt(x.Y); ok && k >= 0 && k < 24 {
			exact = a.scale(1 << uint(k))
		} else {
			okExact = false
		}
	}
	ok := false
	if okExact {
		var hi, lo int64
		if bits >= 64 {
			// 64-bit arithmetic (overflow mode): the exact result stays far inside the int64 range
			// (2^49: every length is below 2^48, and the prover keeps its constants below 2^50)
			// 3*2^48 rather than 2^49: the sum of two lengths plus a small constant is still in range
			hi, lo = int64(3)<<48, -(int64(3) << 48)
			if uns {
				lo = 0
			}
		} else {
			hi = int64(1)<<uint(bits) - 1
			lo = 0
			if !uns {
				hi = int64(1)<<uint(bits-1) - 1
				lo = -hi - 1
			}
		}
		ok = lb.prove([]cons{le(exact, linConst(hi)), ge(exact, linConst(lo))}, x.Block(), nil, map[lvar]lin{}, 2)
		if ok && lbDump && strings.Contains(fname(lb.f), lbDumpFn) && x.Op == token.MUL {
			saved := lbSite
			lbSite = true
			dbg("wrapOK re-prove %s upper:", x.Name())
			r1 := lb.prove([]cons{le(exact, linConst(hi))}, x.Block(), nil, map[lvar]lin{}, 2)
			dbg("wrapOK re-prove %s upper result %v; block facts:", x.Name(), r1)
			for _, c := range lb.branchFacts(x.Block()) {
				dbg("     fact %s <= 0 ne=%v", linString(c.l), c.ne)
			}
			if ph, ok := x.X.(*ssa.Phi); ok {
				if l, ok := lb.inductionUpper(ph); ok {
					dbg("     inductionUpper %s", linString(l))
				}
				for _, c := range lb.loopUpperInvariants(ph) {
					dbg("     loopUpperInv %s", linString(c.l))
				}
				if b, ok := lb.accumBound(ph); ok {
					dbg("     accumBound %d", b)
				}
			}
			for _, c := range lb.defFacts(lvar{0, x.X}) {
				dbg("     def(%s) %s <= 0 ne=%v", x.X.Name(), linString(c.l), c.ne)
			}
			lbSite = saved
		}
	}
	if ok {
		lb.side[x] = 2
		if lbDump && strings.Contains(fname(lb.f), lbDumpFn) {
			dbg("wrapOK ok in %s: %s = %s exact=%s", fname(lb.f), x.Name(), x.String(), linString(exact))
			if x.Op == token.MUL {
				for _, c := range lb.closure(append(lb.branchFacts(x.Block()), ge(exact, linConst(1<<49+1))), map[lvar]lin{}) {
					dbg("      %s <= 0", linString(c.l))
				}
			}
		}
	} else {
		lb.side[x] = 3
		if lbDump && strings.Contains(fname(lb.f), lbDumpFn) {
			dbg("wrapOK FAILED in %s: %s = %s (exact known: %v) at %s", fname(lb.f), x.Name(), x.String(), okExact, lb.p.pos(x.Pos()))
		}
	}
	return ok
}

// sideOK: the unsigned subtraction x.X - x.Y provably does not wrap at its own program point
func (lb *LB) sideOK(x *ssa.BinOp) bool {
	if lb.side == nil {
		lb.side = map[*ssa.BinOp]int{}
	}
	switch lb.side[x] {
	case 1, 3:
		return false
	case 2:
		return true
	}
	lb.side[x] = 1
	ok := lb.prove([]cons{ge(lb.linOf(x.X), lb.linOf(x.Y))}, x.Block(), nil, map[lvar]lin{}, 2)
	if ok {
		lb.side[x] = 2
	} else {
		lb.side[x] = 3
	}
	return ok
}

func abs64(x int64) int64 {
	if x < 0 {
		return -x
	}
	return x
}

// staticLen: arrays and pointers to arrays have a constant length
func staticLen(t types.Type) (int64, bool) {
	switch u := t.Underlying().(type) {
	case *types.Array:
		return u.Len(), true
	case *types.Pointer:
		if a, ok := u.Elem().Underlying().(*types.Array); ok {
			return a.Len(), true
		}
	}
	return 0, false
}

// lenLin: linear term for the length of a slice/string/array valued v
func (lb *LB) lenLin(v ssa.Value) lin {
	if n, ok := staticLen(v.Type()); ok {
		return linConst(n)
	}
	if c, ok := v.(*ssa.Const); ok {
		if c.Value == nil {
			return linConst(0)
		}
		if s, isStr := constString(c); isStr {
			return linConst(int64(len(s)))
		}
	}
	if g := globalOf(v); g != nil {
		if n, ok := globalSliceLen(g); ok {
			return linConst(n)
		}
	}
	return linVar(lvar{1, lenBase(v)})
}

var globalLenCache = map[*ssa.Global]int64{}
var allFnsOf map[*ssa.Function]bool

// globalSliceLen: a package-level slice assigned exactly once, in the package initialiser,
// from a literal / make of constant length.
func globalSliceLen(g *ssa.Global) (int64, bool) {
	if n, ok := globalLenCache[g]; ok {
		return n, n >= 0
	}
	res := int64(-1)
	defer func() { globalLenCache[g] = res }()
	if g.Pkg == nil {
		return 0, false
	}
	stores := 0
	var val ssa.Value
	var scan func(f *ssa.Function)
	scan = func(f *ssa.Function) {
		instrsOf(f, func(_ *ssa.BasicBlock, in ssa.Instruction) {
			if st, ok := in.(*ssa.Store); ok && st.Addr == ssa.Value(g) {
				stores++
				if f.Name() == "init" {
					val = st.Val
				} else {
					stores += 100
				}
			}
			// address taken elsewhere (could be written through a pointer): be conservative
			for _, op := range in.Operands(nil) {
				if *op == ssa.Value(g) {
					switch in.(type) {
					case *ssa.Store, *ssa.UnOp:
					default:
						stores += 100
					}
				}
			}
		})
		for _, a := range f.AnonFuncs {
			scan(a)
		}
	}
	// every function and method of the package (methods are not package members)
	if allFnsOf == nil {
		allFnsOf = ssautil.AllFunctions(g.Pkg.Prog)
	}
	for f := range allFnsOf {
		if f.Pkg == g.Pkg && f.Parent() == nil {
			scan(f)
		}
	}
	if stores != 1 || val == nil {
		return 0, false
	}
	switch x := val.(type) {
	case *ssa.Slice:
		if n, ok := staticLen(x.X.Type()); ok && x.Low == nil {
			if x.High == nil {
				res = n
			} else if h, ok := constInt(x.High); ok && h >= 0 && h <= n {
				res = h
			}
		}
	case *ssa.MakeSlice:
		if n, ok := constInt(x.Len); ok {
			res = n
		}
	}
	return res, res >= 0
}

func constString(c *ssa.Const) (string, bool) {
	if c.Value == nil {
		return "", false
	}
	if b, ok := c.Type().Underlying().(*types.Basic); ok && b.Info()&types.IsString != 0 {
		s := c.Value.ExactString()
		if len(s) >= 2 && s[0] == '"' {
			var out string
			if _, err := fmt.Sscanf(s, "%q", &out); err == nil {
				return out, true
			}
		}
	}
	return "", false
}

// nonneg: syntactic non-negativity
func (lb *LB) nonneg(v ssa.Value, depth int) bool {
	if depth > 8 {
		return false
	}
	if k, ok := constInt(v); ok {
		return k >= 0
	}
	if _, uns, ok := intKind(v.Type()); ok && uns {
		return true
	}
	switch x := v.(type) {
	case *ssa.Convert:
		if _, su, ok := intKind(x.X.Type()); ok && su {
			sb, _, _ := intKind(x.X.Type())
			db, _, _ := intKind(x.Type())
			return db > sb || (db == 64 && sb == 64)
		}
		sb, _, ok1 := intKind(x.X.Type())
		db, _, ok2 := intKind(x.Type())
		if ok1 && ok2 && db >= sb {
			return lb.nonneg(x.X, depth+1)
		}
	case *ssa.BinOp:
		switch x.Op {
		case token.ADD, token.MUL, token.OR, token.SHL, token.QUO, token.XOR:
			return lb.nonneg(x.X, depth+1) && lb.nonneg(x.Y, depth+1)
		case token.AND:
			return lb.nonneg(x.X, depth+1) || lb.nonneg(x.Y, depth+1)
		case token.SHR, token.REM:
			return lb.nonneg(x.X, depth+1)
		}
	case *ssa.Call:
		if bi, ok := x.Call.Value.(*ssa.Builtin); ok {
			switch bi.Name() {
			case "len", "cap", "copy":
				return true
			}
		}
	case *ssa.Phi:
		if iv, ok := lb.inductionLower(x); ok {
			return len(iv.c) == 0 && iv.k >= 0
		}
	}
	return false
}

// inductionLower: phi = [init, phi + positive const ...] => phi >= init (init linear, defined outside)
func (lb *LB) inductionLower(phi *ssa.Phi) (lin, bool) {
	var init ssa.Value
	for _, e := range phi.Edges {
		a := affineOf(e)
		if len(a.coef) == 1 && a.coef[phi] == 1 {
			if a.k <= 0 {
				return lin{}, false
			}
			continue
		}
		// phi + k + v1 + v2 ... with k >= 0 and every v >= 0 (`off += 4; off += certLen`)
		if len(a.coef) > 1 && a.coef[phi] == 1 && a.k >= 0 {
			mono := true
			for v, cv := range a.coef {
				if v == ssa.Value(phi) {
					continue
				}
				if cv <= 0 || !lb.incNonneg(v) {
					mono = false
				}
			}
			if mono {
				continue
			}
		}
		// phi + v with v >= 0 (e.g. a byte count returned by Read)
		if bo, ok := e.(*ssa.BinOp); ok && bo.Op == token.ADD {
			var inc ssa.Value
			if bo.X == ssa.Value(phi) {
				inc = bo.Y
			} else if bo.Y == ssa.Value(phi) {
				inc = bo.X
			}
			if inc != nil && lb.incNonneg(inc) {
				continue
			}
		}
		if init != nil && init != e {
			ia, ib := lb.linOf(init), lb.linOf(e)
			if len(ia.c) == 0 && len(ib.c) == 0 {
				if ib.k < ia.k {
					init = e
				}
				continue
			}
			return lin{}, false
		}
		init = e
	}
	if init == nil {
		return lin{}, false
	}
	// init must not depend on the phi
	l := lb.linOf(init)
	if _, dep := l.c[lvar{0, phi}]; dep {
		return lin{}, false
	}
	return l, true
}

// incNonneg: an increment that is never negative (syntactically, or a count returned by a Read/copy)
func (lb *LB) incNonneg(v ssa.Value) bool {
	if lb.nonneg(v, 0) {
		return true
	}
	for _, cn := range lb.defFacts(lvar{0, v}) {
		// fact "-v <= 0"
		if len(cn.l.c) == 1 && cn.l.c[lvar{0, v}] == -1 && cn.l.k <= 0 && !cn.ne {
			return true
		}
	}
	return false
}

// linInduction: a two-edge header phi [init, phi + step] with a non-zero constant step and an init that is linear in
// values defined outside the loop; returns the index of the init edge too
func (lb *LB) linInduction(phi *ssa.Phi) (lin, int64, int, bool) {
	if len(phi.Edges) != 2 || !isLoopHeader(phi.Block()) {
		return lin{}, 0, 0, false
	}
	for i := 0; i < 2; i++ {
		a := affineOf(phi.Edges[1-i])
		if len(a.coef) != 1 || a.coef[phi] != 1 || a.k == 0 {
			continue
		}
		if !phi.Block().Dominates(phi.Block().Preds[1-i]) || phi.Block().Dominates(phi.Block().Preds[i]) {
			continue
		}
		init := lb.linOf(phi.Edges[i])
		for v := range init.c {
			if in, ok := v.v.(ssa.Instruction); ok && in.Block() != nil && phi.Block().Dominates(in.Block()) {
				return lin{}, 0, 0, false
			}
		}
		return init, a.k, i, true
	}
	return lin{}, 0, 0, false
}

// sameBackEdges: both phis take their increment on exactly the same incoming edges
func sameBackEdges(a, b *ssa.Phi) bool {
	if a.Block() != b.Block() || len(a.Edges) != 2 {
		return false
	}
	for i := range a.Edges {
		_, ca := constInt(a.Edges[i])
		_, cb := constInt(b.Edges[i])
		if ca != cb {
			return false
		}
	}
	return true
}

func (lb *LB) inductionUpper(phi *ssa.Phi) (lin, bool) {
	var init ssa.Value
	for _, e := range phi.Edges {
		a := affineOf(e)
		if len(a.coef) == 1 && a.coef[phi] == 1 {
			if a.k >= 0 {
				return lin{}, false
			}
			continue
		}
		if init != nil && init != e {
			return lin{}, false
		}
		init = e
	}
	if init == nil {
		return lin{}, false
	}
	l := lb.linOf(init)
	if _, dep := l.c[lvar{0, phi}]; dep {
		return lin{}, false
	}
	return l, true
}

// defFacts: facts implied by the definition of a variable
func (lb *LB) defFacts(v lvar) []cons {
	var out []cons
	me := linVar(v)
	switch v.kind {
	case 2:
		out = append(out, ge(me, linVar(lvar{1, v.v})))
		return out
	case 3:
		// synthetic quotient of x & (2^m-1): x = 2^m*q + (x & mask), q >= 0
		out = append(out, ge(me, linConst(0)))
		return out
	case 1:
		out = append(out, ge(me, linConst(0)), le(me, linConst(1<<48))) // lengths are bounded by the address space
		switch x := v.v.(type) {
		case *ssa.Slice:
			var lo, hi lin
			if x.Low != nil {
				lo = lb.linOf(x.Low)
			} else {
				lo = linConst(0)
			}
			if x.High != nil {
				hi = lb.linOf(x.High)
			} else {
				hi = lb.lenLin(x.X)
			}
			out = append(out, eqc(me, hi.addScaled(lo, -1))...)
		case *ssa.MakeSlice:
			out = append(out, eqc(me, lb.linOf(x.Len))...)
		case *ssa.Phi:
			isLoop := false
			for _, p := range x.Block().Preds {
				if x.Block().Dominates(p) {
					isLoop = true
				}
			}
			if isLoop {
				if k, ok := lb.loopLenInvariant(x); ok {
					out = append(out, eqc(me, linConst(k))...)
				}
				out = append(out, lb.slicePhiFacts(x)...)
			}
		case *ssa.Call:
			if bi, ok := x.Call.Value.(*ssa.Builtin); ok && bi.Name() == "append" && len(x.Call.Args) == 2 {
				base := lb.lenLin(x.Call.Args[0])
				add := lb.lenLin(x.Call.Args[1])
				out = append(out, eqc(me, base.addScaled(add, 1))...)
			} else if n, ok := lb.callLenContract(x); ok {
				out = append(out, n...)
			}
		case *ssa.Extract:
			if call, ok := x.Tuple.(*ssa.Call); ok {
				out = append(out, lb.restContract(x, call, me)...)
				if sc := call.Call.StaticCallee(); sc != nil && inRepo(sc) {
					if ct, ok := repoLenContracts[fname(sc)]; ok && ct.result == x.Index && ct.param < len(call.Call.Args) {
						out = append(out, eqc(me, lb.linOf(call.Call.Args[ct.param]))...)
						lb.UsedContracts[fname(sc)] = true
					}
				}
			}
		}
		return out
	}
	// int value
	val := v.v
	if isBoolType(val.Type()) {
		out = append(out, ge(me, linConst(0)), le(me, linConst(1)))
		return out
	}
	bits, uns, ok := intKind(val.Type())
	if ok && uns {
		out = append(out, ge(me, linConst(0)))
		if bits <= 32 {
			out = append(out, le(me, linConst(int64(1)<<uint(bits)-1)))
		}
	}
	switch val.(type) {
	case *ssa.Phi, *ssa.BinOp:
		if rb := lb.lowerRel(val, nil, 0); rb.ok {
			if rb.base == nil {
				out = append(out, ge(me, linConst(rb.c)))
			} else {
				out = append(out, ge(me, linVar(lvar{0, rb.base}).addScaled(linConst(rb.c), 1)))
			}
		}
	}
	switch x := val.(type) {
	case *ssa.Convert:
		// lossy conversion: relate only when the source is provably within range — none; but
		// int(uintN) was linearised already. For narrowing keep type range (above).
		sb, su, ok1 := intKind(x.X.Type())
		db, du, ok2 := intKind(x.Type())
		if ok1 && ok2 && !du && su && db > sb {
			out = append(out, ge(me, linConst(0)))
		}
		if ok1 && ok2 && du && !su && db >= sb {
			// uint(x): equals x when x >= 0 — only the lower bound is sound unconditionally
			out = append(out, ge(me, linConst(0)))
		}
		if ok1 && ok2 && db < sb && du && lb.nonneg(x.X, 0) {
			// truncation of a non-negative value: x mod 2^db <= x
			out = append(out, ge(me, linConst(0)), le(me, lb.linOf(x.X)))
		}
	case *ssa.BinOp:
		a, b := lb.linOf(x.X), lb.linOf(x.Y)
		switch x.Op {
		case token.AND:
			if k, ok := constInt(x.Y); ok && k >= 0 {
				out = append(out, ge(me, linConst(0)), le(me, linConst(k)))
				if lb.nonneg(x.X, 0) {
					out = append(out, le(me, a))
					if k > 0 && k < 1<<40 && (k+1)&k == 0 {
						// x = (k+1)*q + (x & k) for some integer q >= 0
						q := linVar(lvar{3, x})
						out = append(out, eqc(a, q.scale(k+1).addScaled(me, 1))...)
					}
				}
			} else if k, ok := constInt(x.X); ok && k >= 0 {
				out = append(out, ge(me, linConst(0)), le(me, linConst(k)))
				if lb.nonneg(x.Y, 0) {
					out = append(out, le(me, b))
				}
			}
		case token.OR, token.XOR:
			if lb.nonneg(x.X, 0) && lb.nonneg(x.Y, 0) {
				out = append(out, ge(me, linConst(0)), le(me, a.addScaled(b, 1)))
				if x.Op == token.OR {
					out = append(out, ge(me, a), ge(me, b))
				}
			}
		case token.SHR:
			if lb.nonneg(x.X, 0) {
				out = append(out, ge(me, linConst(0)), le(me, a))
			}
			// x >> k is floor(x / 2^k) for either sign
			if k, ok := constInt(x.Y); ok && k >= 0 && k < 40 {
				p2 := int64(1) << uint(k)
				out = append(out, le(me.scale(p2), a), le(a, me.scale(p2).addScaled(linConst(p2-1), 1)))
			}
		case token.REM:
			if k, ok := lb.constOf(x.Y); ok && k > 0 {
				out = append(out, le(me, linConst(k-1)))
				if lb.nonneg(x.X, 0) {
					out = append(out, ge(me, linConst(0)), le(me, a))
				} else {
					out = append(out, ge(me, linConst(-(k-1))))
				}
			} else if !ok && lb.nonneg(x.X, 0) {
				// x % m with a variable modulus: Go panics for m == 0, and for x >= 0, m >= 1 the result is in [0, m-1];
				// the upper bound is only emitted when m >= 1 is established where the remainder is computed
				out = append(out, ge(me, linConst(0)), le(me, a))
				if lb.remBusy == nil {
					lb.remBusy = map[ssa.Value]bool{}
				}
				if !lb.remBusy[x] {
					lb.remBusy[x] = true
					if lb.prove([]cons{ge(lb.linOf(x.Y), linConst(1))}, x.Block(), nil, map[lvar]lin{}, 0) {
						out = append(out, le(me, lb.linOf(x.Y).addScaled(linConst(1), -1)))
					}
					delete(lb.remBusy, x)
				}
			}
		case token.QUO:
			if k, ok := lb.constOf(x.Y); ok && k > 0 {
				if lb.nonneg(x.X, 0) {
					out = append(out, le(me.scale(k), a), le(a, me.scale(k).addScaled(linConst(k-1), 1)), ge(me, linConst(0)))
				} else {
					// truncated division, any sign: x-(k-1) <= k*q <= x+(k-1)
					out = append(out, le(me.scale(k), a.addScaled(linConst(k-1), 1)), ge(me.scale(k), a.addScaled(linConst(k-1), -1)))
				}
			}
		case token.SUB:
			// unsigned subtraction is not linearised; nothing
		case token.MUL:
			if lb.nonneg(x.X, 0) && lb.nonneg(x.Y, 0) {
				out = append(out, ge(me, linConst(0)))
			}
		case token.SHL:
			if lb.nonneg(x.X, 0) {
				out = append(out, ge(me, linConst(0)))
			}
		}
	case *ssa.Phi:
		if lb.ovf && !isLoopHeader(x.Block()) {
			out = append(out, lb.joinUpper(x)...)
		}
		// w = max(K, len(v)): w >= K and w >= len(v)
		if k, of, ok := maxPhi(x); ok {
			out = append(out, ge(me, linConst(k)), ge(me, lb.lenLin(of)))
		}
		if b, ok := lb.accumBound(x); ok {
			out = append(out, ge(me, linConst(0)), le(me, linConst(b)))
		}
		if l, ok := lb.inductionLower(x); ok {
			out = append(out, ge(me, l))
		} else if isLoopHeader(x.Block()) {
			if l, ok := lb.loopLowerInvariant(x); ok {
				out = append(out, ge(me, l))
			}
		}
		if l, ok := lb.inductionUpper(x); ok {
			out = append(out, le(me, l))
		}
		for _, inv := range lb.loopUpperInvariants(x) {
			out = append(out, inv)
		}
		// a counter that starts at a constant and moves by a constant step s with |s| > 1 is start + s*q for an
		// integer q >= 0 (the prover's integer tightening then knows e.g. off < 16*n  =>  off+16 <= 16*n)
		if iv, ok := inductionOf(x); ok && (iv.step > 1 || iv.step < -1) && isLoopHeader(x.Block()) {
			q := linVar(lvar{3, x})
			out = append(out, eqc(me, linConst(iv.init).addScaled(q.scale(iv.step), 1))...)
		}
		// lockstep induction with a linear (not constant) start: lo from 0 up, hi from len-1 down
		if xi, xs, xe, ok := lb.linInduction(x); ok {
			for _, q := range phisOf(x.Block()) {
				if q == x {
					continue
				}
				_, okx := inductionOf(x)
				_, okq := inductionOf(q)
				if okx && okq {
					continue // both constant: the rule below
				}
				if qi, qs, qe, ok := lb.linInduction(q); ok && qe == xe {
					// (x - x0)*sq == (q - q0)*sx
					l := me.addScaled(xi, -1).scale(qs)
					r := linVar(lvar{0, q}).addScaled(qi, -1).scale(xs)
					out = append(out, eqc(l, r)...)
				}
			}
		}
		// lockstep induction: two counters of one loop header advancing once per back edge
		if iv, ok := inductionOf(x); ok && iv.step != 0 {
			for _, q := range phisOf(x.Block()) {
				if q == x {
					continue
				}
				if jv, ok := inductionOf(q); ok && jv.step != 0 && sameBackEdges(x, q) {
					// (x - x0)*sj == (q - q0)*si
					l := me.addScaled(linConst(iv.init), -1).scale(jv.step)
					r := linVar(lvar{0, q}).addScaled(linConst(jv.init), -1).scale(iv.step)
					out = append(out, eqc(l, r)...)
				}
			}
		}
	case *ssa.Call:
		if _, name, _, _, ok := bigMethod(x); ok {
			switch name {
			case "BitLen":
				out = append(out, ge(me, linConst(0)), le(me, linConst(1<<40)))
			case "Sign", "Cmp", "CmpAbs":
				out = append(out, ge(me, linConst(-1)), le(me, linConst(1)))
			}
		}
		if x.Call.IsInvoke() && len(x.Call.Args) == 0 {
			// hash.Hash.Size / BlockSize, cipher.Block(Mode).BlockSize: documented as a (positive) size
			switch x.Call.Method.Name() {
			case "Size":
				out = append(out, ge(me, linConst(1)))
			case "BlockSize":
				out = append(out, ge(me, linConst(1)))
			}
		}
		if bi, ok := x.Call.Value.(*ssa.Builtin); ok && bi.Name() == "copy" {
			out = append(out, ge(me, linConst(0)), le(me, lb.lenLin(x.Call.Args[0])), le(me, lb.lenLin(x.Call.Args[1])))
		}
		if bi, ok := x.Call.Value.(*ssa.Builtin); ok && (bi.Name() == "min" || bi.Name() == "max") {
			for _, a := range x.Call.Args {
				if bi.Name() == "min" {
					out = append(out, le(me, lb.linOf(a)))
				} else {
					out = append(out, ge(me, lb.linOf(a)))
				}
			}
		}
	case *ssa.Extract:
		// n, err := r.Read(buf) / io.ReadFull(r, buf): 0 <= n <= len(buf)
		if call, ok := x.Tuple.(*ssa.Call); ok && x.Index == 0 {
			id := calleeID(&call.Call)
			switch {
			case call.Call.IsInvoke() && call.Call.Method.Name() == "Read" && len(call.Call.Args) == 1:
				out = append(out, ge(me, linConst(0)), le(me, lb.lenLin(call.Call.Args[0])))
			case id == "io.ReadFull" || id == "io.ReadAtLeast":
				out = append(out, ge(me, linConst(0)), le(me, lb.lenLin(call.Call.Args[1])))
			case strings.HasSuffix(id, ".Read") && len(call.Call.Args) == 2:
				out = append(out, ge(me, linConst(0)), le(me, lb.lenLin(call.Call.Args[1])))
			}
		}
	}
	return out
}

// callLenContract: lengths of results of known calls
func (lb *LB) callLenContract(c *ssa.Call) ([]cons, bool) {
	me := linVar(lvar{1, c})
	cc := &c.Call
	if cc.IsInvoke() && cc.Method.Name() == "Sum" && len(cc.Args) == 1 {
		// hash.Hash.Sum(b): len >= len(b) + 16; exactly +32 for sm3.New() objects
		add := int64(16)
		if mk, ok := cc.Value.(*ssa.Call); ok {
			if sc := mk.Call.StaticCallee(); sc != nil && sc.Name() == "New" && sc.Pkg != nil && rel(sc.Pkg.Pkg.Path()) == "sm3" {
				return eqc(me, lb.lenLin(cc.Args[0]).addScaled(linConst(32), 1)), true
			}
			// the standard library's fixed-size digests
			if sc := mk.Call.StaticCallee(); sc != nil && sc.Pkg != nil {
				if n, ok := map[string]int64{"crypto/md5.New": 16, "crypto/sha1.New": 20, "crypto/sha256.New": 32, "crypto/sha256.New224": 28, "crypto/sha512.New": 64, "crypto/sha512.New384": 48}[sc.String()]; ok {
					return eqc(me, lb.lenLin(cc.Args[0]).addScaled(linConst(n), 1)), true
				}
			}
		}
		out := []cons{ge(me, lb.lenLin(cc.Args[0]).addScaled(linConst(add), 1))}
		// h.Sum(b) appends exactly h.Size() bytes: tie to a Size() call on the same hash object
		if f := c.Parent(); f != nil {
			var size *ssa.Call
			instrsOf(f, func(_ *ssa.BasicBlock, in ssa.Instruction) {
				if sc, ok := in.(*ssa.Call); ok && size == nil && sc.Call.IsInvoke() && sc.Call.Method.Name() == "Size" && sc.Call.Value == cc.Value {
					size = sc
				}
			})
			if size != nil {
				out = append(out, eqc(me, lb.lenLin(cc.Args[0]).addScaled(linVar(lvar{0, size}), 1))...)
			}
		}
		return out, true
	}
	sc := cc.StaticCallee()
	if sc == nil {
		return nil, false
	}
	id := calleeID(cc)
	switch id {
	case modPath + "/sm3.Sm3Sum":
		return eqc(me, linConst(32)), true
	case "bytes.Repeat":
		if n, ok := constInt(cc.Args[1]); ok {
			return eqc(me, lb.lenLin(cc.Args[0]).scale(n)), true
		}
		kl := lb.lenLin(cc.Args[0])
		if sl, ok := cc.Args[0].(*ssa.Slice); ok && sl.Low == nil && sl.High == nil {
			// []T{...}: the whole of a fresh array
			if pt, ok := sl.X.Type().Underlying().(*types.Pointer); ok {
				if at, ok := pt.Elem().Underlying().(*types.Array); ok {
					kl = linConst(at.Len())
				}
			}
		}
		if len(kl.c) == 0 && kl.k >= 0 && kl.k < 1<<16 {
			// a slice of constant length k repeated n times (Repeat panics for n < 0)
			return eqc(me, lb.linOf(cc.Args[1]).scale(kl.k)), true
		}
	}
	// repo function with a single return whose result length is a function of its parameters:
	// x[lo:lo+K] (K constant) or make([]T, linear(params))
	if inRepo(sc) && sc.Blocks != nil {
		var rets []*ssa.Return
		instrsOf(sc, func(_ *ssa.BasicBlock, in ssa.Instruction) {
			if r, ok := in.(*ssa.Return); ok {
				rets = append(rets, r)
			}
		})
		if len(rets) == 1 && len(rets[0].Results) >= 1 {
			ps := map[lvar]lin{}
			for i, prm := range sc.Params {
				if i < len(cc.Args) {
					if _, _, isInt := intKind(prm.Type()); isInt {
						ps[lvar{0, prm}] = lb.linOf(cc.Args[i])
					} else {
						ps[lvar{1, prm}] = lb.lenLin(cc.Args[i])
					}
				}
			}
			onlyParams := func(l lin) bool {
				for v := range l.c {
					if _, ok := v.v.(*ssa.Parameter); !ok {
						return false
					}
				}
				return true
			}
			switch r := rets[0].Results[0].(type) {
			case *ssa.Slice:
				if r.Low != nil && r.High != nil {
					d := lb.linOf(r.High).addScaled(lb.linOf(r.Low), -1)
					if len(d.c) == 0 && d.k >= 0 {
						return eqc(me, linConst(d.k)), true
					}
				}
			case *ssa.MakeSlice:
				l := lb.linOf(r.Len)
				if onlyParams(l) {
					return eqc(me, lb.applySubst(l, ps)), true
				}
			}
		}
	}
	// repo function returning a constant-length slice (e.g. a 32-byte zero literal)
	if inRepo(sc) && len(sc.Blocks) == 1 {
		if ret, ok := sc.Blocks[0].Instrs[len(sc.Blocks[0].Instrs)-1].(*ssa.Return); ok && len(ret.Results) == 1 {
			if sl, ok := ret.Results[0].(*ssa.Slice); ok && sl.Low == nil && sl.High == nil {
				if n, ok := staticLen(sl.X.Type()); ok {
					return eqc(me, linConst(n)), true
				}
			}
			if ms, ok := ret.Results[0].(*ssa.MakeSlice); ok {
				if n, ok := constInt(ms.Len); ok {
					return eqc(me, linConst(n)), true
				}
			}
		}
	}
	return nil, false
}

// condFacts: constraints implied by cond being `truth`
func (lb *LB) condFacts(cond ssa.Value, truth bool) []cons {
	for {
		if u, ok := cond.(*ssa.UnOp); ok && u.Op == token.NOT {
			truth = !truth
			cond = u.X
			continue
		}
		break
	}
	bo, ok := cond.(*ssa.BinOp)
	if !ok {
		// a boolean variable used as the condition
		switch cond.(type) {
		case *ssa.Phi, *ssa.Parameter, *ssa.Extract, *ssa.Call, *ssa.UnOp:
			if isBoolType(cond.Type()) {
				k := int64(0)
				if truth {
					k = 1
				}
				return eqc(lb.linOf(cond), linConst(k))
			}
		}
		return nil
	}
	if _, _, isInt := intKind(bo.X.Type()); !isInt {
		if isNilConst(bo.Y) && (bo.Op == token.EQL || bo.Op == token.NEQ) {
			return lb.nilTestFacts(bo.X, (bo.Op == token.EQL) == truth)
		}
		return nil
	}
	a, b := lb.linOf(bo.X), lb.linOf(bo.Y)
	op := bo.Op
	if !truth {
		switch op {
		case token.LSS:
			op = token.GEQ
		case token.LEQ:
			op = token.GTR
		case token.GTR:
			op = token.LEQ
		case token.GEQ:
			op = token.LSS
		case token.EQL:
			op = token.NEQ
		case token.NEQ:
			op = token.EQL
		}
	}
	switch op {
	case token.LSS:
		return []cons{lt(a, b)}
	case token.LEQ:
		return []cons{le(a, b)}
	case token.GTR:
		return []cons{lt(b, a)}
	case token.GEQ:
		return []cons{le(b, a)}
	case token.EQL:
		return eqc(a, b)
	case token.NEQ:
		out := []cons{{l: a.addScaled(b, -1), ne: true}}
		// a counter that starts at c0 and advances by s > 0 on every back edge takes the values c0, c0+s, …: when it
		// differs from c0 it is at least c0+s (`off != 0` in a loop stepping by 16 means off >= 16)
		for _, side := range [][2]ssa.Value{{bo.X, bo.Y}, {bo.Y, bo.X}} {
			phi, isPhi := side[0].(*ssa.Phi)
			k, isK := constInt(side[1])
			if !isPhi || !isK || !isLoopHeader(phi.Block()) {
				continue
			}
			if iv, ok := inductionOf(phi); ok && iv.step > 0 && iv.init == k {
				out = append(out, ge(linVar(lvar{0, phi}), linConst(iv.init+iv.step)))
			}
		}
		return out
	}
	return nil
}

// branchFacts: conditions known to hold on entry to block b (dominating edges)
func (lb *LB) branchFacts(b *ssa.BasicBlock) []cons {
	var out []cons
	for d := b; d != nil && d.Idom() != nil; d = d.Idom() {
		x := d.Idom()
		ifi, ok := lastIf(x)
		if !ok {
			continue
		}
		if len(d.Preds) != 1 || d.Preds[0] != x || x.Succs[0] == x.Succs[1] {
			continue
		}
		out = append(out, lb.condFacts(ifi.Cond, x.Succs[0] == d)...)
	}
	return out
}

// edgeFacts: facts known when control flows over edge p -> s
func (lb *LB) edgeFacts(p, s *ssa.BasicBlock) []cons {
	out := lb.branchFacts(p)
	if ifi, ok := lastIf(p); ok && p.Succs[0] != p.Succs[1] {
		out = append(out, lb.condFacts(ifi.Cond, p.Succs[0] == s)...)
	}
	return out
}

// ---- Fourier–Motzkin with integer tightening

func gcd64(a, b int64) int64 {
	a, b = abs64(a), abs64(b)
	for b != 0 {
		a, b = b, a%b
	}
	return a
}

func tighten(c cons) cons {
	var g int64
	for _, v := range c.l.c {
		g = gcd64(g, v)
	}
	if g <= 1 {
		return c
	}
	r := newLin()
	for v, co := range c.l.c {
		r.c[v] = co / g
	}
	// sum + k <= 0  ->  sum/g <= floor(-k/g)  -> k' = -floor(-k/g)
	nk := -c.l.k
	fl := nk / g
	if nk%g != 0 && nk < 0 {
		fl--
	}
	r.k = -fl
	return cons{l: r}
}

// interned variable ids (for dedup keys) and stable names (for deterministic tie-breaking)
var lvarIDs = map[lvar]int{}
var lvarStable = map[lvar]string{}

func lvarID(v lvar) int {
	if id, ok := lvarIDs[v]; ok {
		return id
	}
	id := len(lvarIDs) + 1
	lvarIDs[v] = id
	return id
}

// stableName: independent of addresses and map order: function, block and instruction index of the definition
func stableName(v lvar) string {
	if s, ok := lvarStable[v]; ok {
		return s
	}
	s := ""
	switch x := v.v.(type) {
	case ssa.Instruction:
		fn := ""
		if x.Parent() != nil {
			fn = x.Parent().String()
		}
		bi, ii := -1, -1
		if b := x.Block(); b != nil {
			bi = b.Index
			for i, in := range b.Instrs {
				if in == x {
					ii = i
					break
				}
			}
		}
		s = fmt.Sprintf("i|%s|%05d|%05d|%d", fn, bi, ii, v.kind)
	case *ssa.Parameter:
		fn := ""
		if x.Parent() != nil {
			fn = x.Parent().String()
		}
		s = fmt.Sprintf("p|%s|%s|%d", fn, x.Name(), v.kind)
	default:
		s = fmt.Sprintf("o|%s|%s|%d", v.v.Name(), v.v.Type().String(), v.kind)
	}
	lvarStable[v] = s
	return s
}

func consKey(c cons) string {
	type pr struct {
		id int
		co int64
	}
	ps := make([]pr, 0, len(c.l.c))
	for v, co := range c.l.c {
		ps = append(ps, pr{lvarID(v), co})
	}
	sort.Slice(ps, func(i, j int) bool { return ps[i].id < ps[j].id })
	buf := make([]byte, 0, 16*len(ps)+12)
	for _, p := range ps {
		buf = strconv.AppendInt(buf, int64(p.id), 36)
		buf = append(buf, ':')
		buf = strconv.AppendInt(buf, p.co, 36)
		buf = append(buf, ',')
	}
	buf = append(buf, '|')
	buf = strconv.AppendInt(buf, c.l.k, 36)
	return string(buf)
}

// infeasible reports whether the conjunction of constraints has no rational solution
// (after integer tightening of each derived row).
func infeasible(cs []cons, limit int) bool {
	seen := map[string]bool{}
	var work []cons
	addc := func(c cons) bool {
		c = tighten(c)
		if len(c.l.c) == 0 {
			return c.l.k > 0
		}
		for _, co := range c.l.c {
			if abs64(co) > 1<<40 {
				return false
			}
		}
		if abs64(c.l.k) > 1<<50 {
			return false
		}
		k := consKey(c)
		if seen[k] {
			return false
		}
		seen[k] = true
		work = append(work, c)
		return false
	}
	for _, c := range cs {
		if c.ne {
			continue
		}
		if addc(c) {
			return true
		}
	}
	for {
		// pick variable with smallest pos*neg
		cnt := map[lvar][2]int{}
		big := map[lvar]bool{} // variables with a non-unit coefficient are eliminated last, so that the
		// constraints on them alone are formed and tightened to integers (q >= 129/128 becomes q >= 2)
		for _, c := range work {
			for v, co := range c.l.c {
				x := cnt[v]
				if co > 0 {
					x[0]++
				} else {
					x[1]++
				}
				cnt[v] = x
				if co > 1 || co < -1 {
					big[v] = true
				}
			}
		}
		if len(cnt) == 0 {
			return false
		}
		var best lvar
		bestCost := -1
		for v, x := range cnt {
			cost := x[0] * x[1]
			if big[v] {
				cost += 1 << 20
			}
			if bestCost < 0 || cost < bestCost || (cost == bestCost && stableName(v) < stableName(best)) {
				best, bestCost = v, cost
			}
		}
		var pos, neg, rest []cons
		for _, c := range work {
			co := c.l.c[best]
			switch {
			case co > 0:
				pos = append(pos, c)
			case co < 0:
				neg = append(neg, c)
			default:
				rest = append(rest, c)
			}
		}
		work = rest
		seen = map[string]bool{}
		for _, c := range work {
			seen[consKey(c)] = true
		}
		if len(pos)*len(neg)+len(rest) > limit {
			return false
		}
		for _, p := range pos {
			for _, n := range neg {
				a, b := p.l.c[best], -n.l.c[best]
				g := gcd64(a, b)
				comb := p.l.scale(b/g).addScaled(n.l, a/g)
				delete(comb.c, best)
				if addc(cons{l: comb}) {
					return true
				}
			}
		}
	}
}

// ---- proving

type proofCtx struct {
	facts []cons
	subst map[lvar]lin // case-split substitutions (phi -> incoming)
}

func (lb *LB) applySubst(l lin, subst map[lvar]lin) lin {
	for i := 0; i < 8; i++ {
		changed := false
		r := linConst(l.k)
		for v, c := range l.c {
			if s, ok := subst[v]; ok {
				r = r.addScaled(s, c)
				changed = true
			} else {
				r = r.addScaled(linVar(v), c)
			}
		}
		l = r
		if !changed {
			break
		}
	}
	return l
}

// closure: gather definition facts for every variable reachable from the given constraints
func (lb *LB) closure(cs []cons, subst map[lvar]lin) []cons {
	seen := map[lvar]bool{}
	out := append([]cons{}, cs...)
	for i := 0; i < len(out) && len(out) < 400; i++ {
		for v := range out[i].l.c {
			if seen[v] {
				continue
			}
			seen[v] = true
			for _, d := range lb.defFacts(v) {
				d.l = lb.applySubst(d.l, subst)
				out = append(out, d)
			}
		}
	}
	return out
}

// prove: all goals hold at (block b, before instruction idx) given extra facts.
func (lb *LB) prove(goals []cons, b *ssa.BasicBlock, extra []cons, subst map[lvar]lin, depth int) bool {
	saved := lb.curBlock
	if b != nil && b.Parent() == lb.f {
		lb.curBlock = b
	}
	defer func() { lb.curBlock = saved }()
	facts := append(append([]cons{}, lb.branchFacts(b)...), extra...)
	facts = append(facts, lb.extra...)
	return lb.proveWith(goals, facts, subst, depth)
}

type alt struct {
	facts []cons
	subst map[lvar]lin
}

func (lb *LB) proveWith(goals []cons, facts []cons, subst map[lvar]lin, depth int) bool {
	sf := make([]cons, 0, len(facts))
	var nes []cons
	for _, f := range facts {
		c := cons{l: lb.applySubst(f.l, subst), ne: f.ne}
		if c.ne {
			nes = append(nes, c)
		} else {
			sf = append(sf, c)
		}
	}
	// x != 0 together with x >= 0 gives x >= 1 (and symmetrically)
	for _, n := range nes {
		below := cons{l: n.l.clone()} // l <= -1 ?
		below.l.k++
		if infeasible(lb.closure(append(append([]cons{}, sf...), below), subst), 2000) {
			// l <= -1 impossible  =>  l >= 1
			up := cons{l: n.l.scale(-1)}
			up.l.k++
			sf = append(sf, up)
			continue
		}
		above := cons{l: n.l.scale(-1)}
		above.l.k++
		if infeasible(lb.closure(append(append([]cons{}, sf...), above), subst), 2000) {
			dn := cons{l: n.l.clone()}
			dn.l.k++
			sf = append(sf, dn)
		}
	}
	var failing []cons
	for _, g := range goals {
		g = cons{l: lb.applySubst(g.l, subst)}
		// negate: g.l >= 1  <=>  -g.l + 1 <= 0
		neg := cons{l: g.l.scale(-1)}
		neg.l.k++
		sys := lb.closure(append(append([]cons{}, sf...), neg), subst)
		if !infeasible(sys, 4000) {
			failing = append(failing, g)
		}
	}
	if len(failing) == 0 {
		return true
	}
	if depth == 0 && lbDump && lbSite && strings.Contains(fname(lb.f), lbDumpFn) {
		for _, g := range failing {
			neg := cons{l: g.l.scale(-1)}
			neg.l.k++
			dbg("LB unproved goal %s <= 0; system:", linString(g.l))
			for _, c := range lb.closure(append(append([]cons{}, sf...), neg), subst) {
				dbg("    %s <= 0", linString(c.l))
			}
		}
	}
	if depth >= lbDepthLimit {
		return false
	}
	for _, g := range failing {
		neg := cons{l: g.l.scale(-1)}
		neg.l.k++
		sys := lb.closure(append(append([]cons{}, sf...), neg), subst)
		// candidate case splits
		var splits [][]alt
		splitSeen := map[*ssa.Call]bool{}
		seen := map[lvar]bool{}
		var vars []lvar
		for _, c := range sys {
			for v := range c.l.c {
				if !seen[v] {
					seen[v] = true
					vars = append(vars, v)
				}
			}
		}
		sort.Slice(vars, func(i, j int) bool {
			if vars[i].v.Name() != vars[j].v.Name() {
				return vars[i].v.Name() < vars[j].v.Name()
			}
			return vars[i].kind < vars[j].kind
		})
		for _, v := range vars {
			if phi, ok := v.v.(*ssa.Phi); ok {
				if v.kind == 0 {
					if _, isInd := lb.inductionLower(phi); isInd {
						continue
					}
					if _, isInd := lb.inductionUpper(phi); isInd {
						continue
					}
				}
				loop := false
				for _, p := range phi.Block().Preds {
					if phi.Block().Dominates(p) {
						loop = true
					}
				}
				if loop {
					continue
				}
				var alts []alt
				for i, e := range phi.Edges {
					ns := map[lvar]lin{}
					for k, val := range subst {
						ns[k] = val
					}
					if v.kind == 0 {
						ns[v] = lb.linOf(e)
					} else if v.kind == 1 {
						ns[v] = lb.lenLin(e)
					} else {
						continue
					}
					alts = append(alts, alt{lb.edgeFacts(phi.Block().Preds[i], phi.Block()), ns})
				}
				if len(alts) == len(phi.Edges) {
					splits = append(splits, alts)
				}
			}
			// results of acyclic repo callees / closures: one alternative per return path
			{
				var call *ssa.Call
				switch y := v.v.(type) {
				case *ssa.Call:
					call = y
				case *ssa.Extract:
					call, _ = y.Tuple.(*ssa.Call)
				}
				if call != nil && !splitSeen[call] {
					if _, isB := call.Call.Value.(*ssa.Builtin); !isB {
						if alts, ok := lb.callAlts(call, subst); ok {
							splitSeen[call] = true
							splits = append(splits, alts)
						}
					}
				}
			}
			if bo, ok := v.v.(*ssa.BinOp); ok && v.kind == 0 && (bo.Op == token.QUO || bo.Op == token.REM) {
				k, isC := constInt(bo.Y)
				if !isC || k <= 0 || lb.nonneg(bo.X, 0) {
					continue
				}
				x := lb.linOf(bo.X)
				me := linVar(v)
				var pos, negf []cons
				if bo.Op == token.QUO {
					pos = []cons{ge(x, linConst(0)), le(me.scale(k), x), le(x, me.scale(k).addScaled(linConst(k-1), 1)), ge(me, linConst(0))}
					negf = []cons{le(x, linConst(-1)), ge(me.scale(k), x), le(me.scale(k), x.addScaled(linConst(k-1), 1)), le(me, linConst(0))}
				} else {
					pos = []cons{ge(x, linConst(0)), ge(me, linConst(0)), le(me, linConst(k-1)), le(me, x)}
					negf = []cons{le(x, linConst(-1)), le(me, linConst(0)), ge(me, linConst(-(k - 1)))}
				}
				splits = append(splits, []alt{{pos, subst}, {negf, subst}})
			}
		}
		// control-flow joins without phis on the dominator chain of the obligation (the merge after
		// `if a && b { return }`): the disjunction of the incoming edge conditions was lost at the join
		if lb.curBlock != nil && lb.curBlock.Parent() == lb.f {
			nj := 0
			for d := lb.curBlock; d != nil && nj < 4; d = d.Idom() {
				if len(d.Preds) < 2 || isLoopHeader(d) || len(phisOf(d)) > 0 {
					continue
				}
				// relevance: some incoming edge condition must mention a variable of the current system
				relevant := false
				for _, p := range d.Preds {
					if ifi, ok := lastIf(p); ok && p.Succs[0] != p.Succs[1] {
						for _, cn := range lb.condFacts(ifi.Cond, p.Succs[0] == d) {
							for v := range cn.l.c {
								if seen[v] {
									relevant = true
								}
							}
						}
					}
				}
				if !relevant {
					continue
				}
				nj++
				var alts []alt
				for _, p := range d.Preds {
					alts = append(alts, alt{lb.edgeFacts(p, d), subst})
				}
				splits = append(splits, alts)
			}
		}
		proved := false
		for si, alts := range splits {
			if len(alts) == 0 {
				continue // a case split needs at least one case
			}
			ok := true
			for ai, a := range alts {
				ef := append(append([]cons{}, facts...), a.facts...)
				if !lb.proveWith([]cons{g}, ef, a.subst, depth+1) {
					if lbDump && lbSite && strings.Contains(fname(lb.f), lbDumpFn) {
						dbg("%*sdepth %d goal %s: split %d/%d alt %d/%d FAILED", depth*2, "", depth, linString(g.l), si+1, len(splits), ai+1, len(alts))
						if depth+1 >= 4 || true {
							neg := cons{l: lb.applySubst(g.l, a.subst).scale(-1)}
							neg.l.k++
							var sf2 []cons
							for _, f := range ef {
								if !f.ne {
									sf2 = append(sf2, cons{l: lb.applySubst(f.l, a.subst)})
								}
							}
							for _, c := range lb.closure(append(sf2, neg), a.subst) {
								dbg("%*s    %s <= 0", depth*2, "", linString(c.l))
							}
						}
					}
					ok = false
					break
				}
			}
			if ok {
				if lbDump && strings.Contains(fname(lb.f), lbDumpFn) {
					dbg("%*sdepth %d goal %s PROVED by split %d/%d with %d alts", depth*2, "", depth, linString(g.l), si+1, len(splits), len(alts))
					for ai, a := range alts {
						dbg("%*s  alt %d facts:", depth*2, "", ai)
						for _, f := range a.facts {
							dbg("%*s     %s <= 0 ne=%v", depth*2, "", linString(f.l), f.ne)
						}
						for k, v := range a.subst {
							dbg("%*s     subst %s#%d := %s", depth*2, "", k.v.Name(), k.kind, linString(v))
						}
					}
				}
				proved = true
				break
			}
		}
		if !proved {
			return false
		}
	}
	return true
}

// ---- sites

type bsite struct {
	Instr ssa.Instruction
	Kind  string // index | slice | make
	Desc  string
	Goals []cons
}

// sitesOf: all bounds obligations in f
func (lb *LB) sitesOf(f *ssa.Function) []bsite {
	var out []bsite
	for _, b := range f.Blocks {
		for _, in := range b.Instrs {
			switch x := in.(type) {
			case *ssa.IndexAddr:
				n := lb.lenLin(x.X)
				i := lb.linOf(x.Index)
				out = append(out, bsite{in, "index", "", []cons{ge(i, linConst(0)), lt(i, n)}})
			case *ssa.Index:
				if _, isMap := x.X.Type().Underlying().(*types.Map); isMap {
					continue
				}
				n := lb.lenLin(x.X)
				i := lb.linOf(x.Index)
				out = append(out, bsite{in, "index", "", []cons{ge(i, linConst(0)), lt(i, n)}})
			case *ssa.Slice:
				var capL lin
				if n, ok := staticLen(x.X.Type()); ok {
					capL = linConst(n)
				} else if _, isStr := x.X.Type().Underlying().(*types.Basic); isStr {
					capL = lb.lenLin(x.X)
				} else {
					capL = linVar(lvar{2, lenBase(x.X)})
				}
				lo := linConst(0)
				if x.Low != nil {
					lo = lb.linOf(x.Low)
				}
				var goals []cons
				if x.Low != nil {
					goals = append(goals, ge(lo, linConst(0)))
				}
				if x.High != nil {
					hi := lb.linOf(x.High)
					goals = append(goals, le(lo, hi))
					if x.Max != nil {
						mx := lb.linOf(x.Max)
						goals = append(goals, le(hi, mx), le(mx, capL))
					} else {
						goals = append(goals, le(hi, capL))
					}
				} else {
					// x[lo:] : lo <= len(x)
					goals = append(goals, le(lo, lb.lenLin(x.X)))
				}
				if len(goals) == 0 {
					continue
				}
				out = append(out, bsite{in, "slice", "", goals})
			case *ssa.MakeSlice:
				out = append(out, bsite{in, "make", "", []cons{ge(lb.linOf(x.Len), linConst(0))}})
			case *ssa.SliceToArrayPointer:
				if n, ok := staticLen(x.Type()); ok {
					out = append(out, bsite{in, "slice", "", []cons{ge(lb.lenLin(x.X), linConst(n))}})
				}
			}
		}
	}
	return out
}

func (lb *LB) proveSite(s bsite) bool {
	b := s.Instr.Block()
	// trivially constant goals
	lbSite = true
	ok := lb.prove(s.Goals, b, nil, map[lvar]lin{}, 0)
	lbSite = false
	if ok {
		lb.Proved++
	} else {
		lb.Unproved++
	}
	return ok
}

// ---- callee path summaries (acyclic callees): each entry→return path yields the conditions that
// hold on it and the values returned, phis resolved along the path.

type calleePath struct {
	conds   []cons
	results []ssa.Value
	subst   map[lvar]lin // phi resolution along the path
	failing bool         // the path returns a non-nil error
}

var calleePathCache = map[*ssa.Function][]calleePath{}
var calleePathOK = map[*ssa.Function]bool{}

func (lb *LB) pathsOfCallee(f *ssa.Function) ([]calleePath, bool) {
	if ps, ok := calleePathCache[f]; ok {
		return ps, calleePathOK[f]
	}
	calleePathCache[f] = nil
	calleePathOK[f] = false
	if f.Blocks == nil {
		return nil, false
	}
	if len(loopHeaders(f)) > 0 || len(f.Blocks) > 40 {
		// callee with loops: one summary per return instruction, using only the conditions on
		// dominating branch edges (valid for every execution that reaches that return)
		var out []calleePath
		for _, b := range f.Blocks {
			ret, ok := b.Instrs[len(b.Instrs)-1].(*ssa.Return)
			if !ok {
				continue
			}
			out = append(out, calleePath{conds: lb.branchFacts(b), results: ret.Results, subst: map[lvar]lin{}})
		}
		if len(out) == 0 || len(out) > 16 {
			return nil, false
		}
		calleePathCache[f] = out
		calleePathOK[f] = true
		return out, true
	}
	var out []calleePath
	var walk func(path []*ssa.BasicBlock) bool
	walk = func(path []*ssa.BasicBlock) bool {
		if len(out) > 32 {
			return false
		}
		b := path[len(path)-1]
		last := b.Instrs[len(b.Instrs)-1]
		if ret, ok := last.(*ssa.Return); ok {
			cp := calleePath{subst: map[lvar]lin{}}
			// phi resolution
			for j := 1; j < len(path); j++ {
				for _, phi := range phisOf(path[j]) {
					for pi, pr := range path[j].Preds {
						if pr == path[j-1] {
							e := phi.Edges[pi]
							if _, _, isInt := intKind(phi.Type()); isInt {
								cp.subst[lvar{0, phi}] = lb.linOf(e)
							} else {
								cp.subst[lvar{1, phi}] = lb.lenLin(e)
								cp.subst[lvar{2, phi}] = linVar(lvar{2, lenBase(e)})
							}
						}
					}
				}
			}
			for j := 0; j+1 < len(path); j++ {
				if ifi, ok := lastIf(path[j]); ok && path[j].Succs[0] != path[j].Succs[1] {
					for _, cn := range lb.condFacts(ifi.Cond, path[j].Succs[0] == path[j+1]) {
						cp.conds = append(cp.conds, cons{l: lb.applySubst(cn.l, cp.subst), ne: cn.ne})
					}
				}
			}
			cp.results = ret.Results
			// does the path return a non-nil error? (a literal error, or a value the path has tested != nil)
			nonNil := map[ssa.Value]bool{}
			for j := 0; j+1 < len(path); j++ {
				if ifi, ok := lastIf(path[j]); ok && path[j].Succs[0] != path[j].Succs[1] {
					if bo, ok := ifi.Cond.(*ssa.BinOp); ok && isNilConst(bo.Y) {
						taken := path[j].Succs[0] == path[j+1]
						if (bo.Op == token.NEQ && taken) || (bo.Op == token.EQL && !taken) {
							nonNil[bo.X] = true
						}
					}
				}
			}
			for _, r := range ret.Results {
				if isErrorType(r.Type()) && (nonNil[r] || definitelyNonNil(r, 0, map[ssa.Value]bool{})) {
					cp.failing = true
				}
			}
			out = append(out, cp)
			return true
		}
		if _, ok := last.(*ssa.Panic); ok {
			return true // no return on this path
		}
		for _, s := range b.Succs {
			if !walk(append(append([]*ssa.BasicBlock{}, path...), s)) {
				return false
			}
		}
		return true
	}
	if !walk([]*ssa.BasicBlock{f.Blocks[0]}) {
		return nil, false
	}
	calleePathCache[f] = out
	calleePathOK[f] = true
	return out, true
}

// callAlts: alternatives describing the results of a static call to an acyclic repo function
func (lb *LB) callAlts(call *ssa.Call, subst map[lvar]lin) ([]alt, bool) {
	var callee *ssa.Function
	if sc := call.Call.StaticCallee(); sc != nil && inRepo(sc) {
		callee = sc
	} else if mc, ok := call.Call.Value.(*ssa.MakeClosure); ok {
		callee, _ = mc.Fn.(*ssa.Function)
	}
	if callee == nil || callee == lb.f {
		// a recursive call: the callee's variables are this function's own variables (another activation);
		// a path summary would confuse the two. Recursive calls are described by repoIntContracts only.
		return nil, false
	}
	paths, ok := lb.pathsOfCallee(callee)
	if !ok || len(paths) == 0 {
		return nil, false
	}
	args := call.Call.Args
	ps := map[lvar]lin{}
	for i, prm := range callee.Params {
		if i >= len(args) {
			break
		}
		if _, _, isInt := intKind(prm.Type()); isInt {
			ps[lvar{0, prm}] = lb.linOf(args[i])
		} else {
			ps[lvar{1, prm}] = lb.lenLin(args[i])
		}
	}
	// the obligation lies on the caller's path where the call's error result was tested to be nil:
	// callee paths that return a non-nil error cannot have been taken
	errNil := false
	if lb.curBlock != nil && call.Parent() == lb.f {
		if refs := call.Referrers(); refs != nil {
			for _, u := range *refs {
				ex, ok := u.(*ssa.Extract)
				if !ok || !isErrorType(ex.Type()) {
					continue
				}
				for _, u2 := range *ex.Referrers() {
					bo, ok := u2.(*ssa.BinOp)
					if !ok || !isNilConst(bo.Y) || bo.X != ssa.Value(ex) {
						continue
					}
					for _, u3 := range *bo.Referrers() {
						ifi, ok := u3.(*ssa.If)
						if !ok {
							continue
						}
						var t *ssa.BasicBlock
						if bo.Op == token.NEQ {
							t = ifi.Block().Succs[1]
						} else if bo.Op == token.EQL {
							t = ifi.Block().Succs[0]
						}
						if t != nil && len(t.Preds) == 1 && (t == lb.curBlock || t.Dominates(lb.curBlock)) {
							errNil = true
						}
					}
				}
			}
		}
	}
	var alts []alt
	for _, cp := range paths {
		if errNil && cp.failing {
			continue
		}
		ns := map[lvar]lin{}
		for k, v := range subst {
			ns[k] = v
		}
		for k, v := range cp.subst {
			ns[k] = lb.applySubst(v, ps)
		}
		for k, v := range ps {
			ns[k] = v
		}
		// results
		res := cp.results
		if len(res) == 1 {
			if _, _, isInt := intKind(res[0].Type()); isInt {
				ns[lvar{0, call}] = lb.applySubst(lb.applySubst(lb.linOf(res[0]), cp.subst), ps)
			} else {
				ns[lvar{1, call}] = lb.applySubst(lb.applySubst(lb.lenLin(res[0]), cp.subst), ps)
			}
		} else if refs := call.Referrers(); refs != nil {
			for _, u := range *refs {
				ex, ok := u.(*ssa.Extract)
				if !ok || ex.Index >= len(res) {
					continue
				}
				if _, _, isInt := intKind(ex.Type()); isInt {
					ns[lvar{0, ex}] = lb.applySubst(lb.applySubst(lb.linOf(res[ex.Index]), cp.subst), ps)
				} else {
					ns[lvar{1, ex}] = lb.applySubst(lb.applySubst(lb.lenLin(res[ex.Index]), cp.subst), ps)
				}
			}
		}
		var facts []cons
		for _, cn := range cp.conds {
			facts = append(facts, cons{l: lb.applySubst(cn.l, ps), ne: cn.ne})
		}
		alts = append(alts, alt{facts, ns})
	}
	return alts, true
}

// loopLenInvariant: for a loop-header phi of slice type, len(phi) == K if the entry value has
// constant length K and every back-edge value has length K under the hypothesis len(phi) == K.
var loopLenCache = map[*ssa.Phi]int64{}

func (lb *LB) loopLenInvariant(phi *ssa.Phi) (int64, bool) {
	if k, ok := loopLenCache[phi]; ok {
		return k, k >= 0
	}
	loopLenCache[phi] = -1
	h := phi.Block()
	var k int64 = -1
	for i, e := range phi.Edges {
		if h.Dominates(h.Preds[i]) {
			continue
		}
		l := lb.lenLin(e)
		// resolve through definition facts: must be provably constant
		for _, cand := range []int64{16, 32, 8, 4, 64, 0} {
			if lb.prove(eqc(l, linConst(cand)), h.Preds[i], nil, map[lvar]lin{}, 2) {
				if k >= 0 && k != cand {
					return 0, false
				}
				k = cand
				break
			}
		}
	}
	if k < 0 {
		return 0, false
	}
	hyp := eqc(linVar(lvar{1, phi}), linConst(k))
	for i, e := range phi.Edges {
		if !h.Dominates(h.Preds[i]) {
			continue
		}
		if !lb.prove(eqc(lb.lenLin(e), linConst(k)), h.Preds[i], hyp, map[lvar]lin{}, 1) {
			return 0, false
		}
	}
	loopLenCache[phi] = k
	return k, true
}

// loopUpperInvariants: inductive invariants phi <= L for an integer loop-header phi, with candidate
// bounds L taken from the loop's controlling comparison (e.g. n < len(buf) suggests n <= len(buf)).
// Base: every entry value <= L; step: assuming phi <= L and the facts on the back edge, next <= L.
var loopUpperCache = map[*ssa.Phi][]cons{}
var loopUpperBusy = map[*ssa.Phi]bool{}

func (lb *LB) loopUpperInvariants(phi *ssa.Phi) []cons {
	if r, ok := loopUpperCache[phi]; ok {
		return r
	}
	if loopUpperBusy[phi] {
		return nil
	}
	h := phi.Block()
	isLoop := false
	for _, p := range h.Preds {
		if h.Dominates(p) {
			isLoop = true
		}
	}
	if !isLoop {
		return nil
	}
	loopUpperBusy[phi] = true
	defer delete(loopUpperBusy, phi)
	var out []cons
	me := linVar(lvar{0, phi})
	var cands []lin
	// comparisons involving phi anywhere in the loop-controlling conditions of the header chain
	for _, b := range phi.Parent().Blocks {
		if !(b == h || h.Dominates(b)) {
			continue
		}
		ifi, ok := lastIf(b)
		if !ok {
			continue
		}
		bo, ok := ifi.Cond.(*ssa.BinOp)
		if !ok {
			continue
		}
		if bo.X == ssa.Value(phi) && (bo.Op == token.LSS || bo.Op == token.LEQ || bo.Op == token.NEQ || bo.Op == token.GEQ || bo.Op == token.EQL) {
			cands = append(cands, lb.linOf(bo.Y))
		}
		if bo.Y == ssa.Value(phi) && (bo.Op == token.GTR || bo.Op == token.GEQ || bo.Op == token.NEQ || bo.Op == token.LEQ || bo.Op == token.EQL) {
			cands = append(cands, lb.linOf(bo.X))
		}
		// comparisons of phi+c with a bound (offset++; if offset >= n {return}): candidates only, each is
		// established by the induction below
		switch bo.Op {
		case token.LSS, token.LEQ, token.GTR, token.GEQ:
			if isIntType(bo.X.Type()) && bo.X != ssa.Value(phi) && bo.Y != ssa.Value(phi) {
				d := lb.linOf(bo.X).addScaled(lb.linOf(bo.Y), -1)
				co := d.c[lvar{0, phi}]
				if co == 1 || co == -1 {
					rest := d.clone()
					delete(rest.c, lvar{0, phi})
					L := rest.scale(-co)
					cands = append(cands, L, L.addScaled(linConst(1), -1))
				}
			}
		}
	}
	for _, L := range cands {
		if _, dep := L.c[lvar{0, phi}]; dep {
			continue
		}
		// the bound must be loop-invariant: every variable in it is defined outside the loop
		inv := true
		for v := range L.c {
			if in, ok := v.v.(ssa.Instruction); ok && in.Block() != nil && (in.Block() == h || h.Dominates(in.Block())) {
				inv = false
			}
		}
		if !inv {
			continue
		}
		goal := le(me, L)
		ok := true
		for i, e := range phi.Edges {
			pred := h.Preds[i]
			g := le(lb.linOf(e), L)
			if h.Dominates(pred) {
				// step: hypothesis phi <= L
				facts := append(lb.edgeFacts(pred, h), goal)
				if !lb.proveAtBlock(pred, []cons{g}, append(facts, lb.extra...), 2) {
					ok = false
					break
				}
			} else {
				if !lb.proveAtBlock(pred, []cons{g}, append(lb.edgeFacts(pred, h), lb.extra...), 2) {
					ok = false
					break
				}
			}
		}
		if ok {
			out = append(out, goal)
		}
	}
	loopUpperCache[phi] = out
	return out
}

// loadRep: a load of a field of a local struct variable denotes the same value as an earlier dominating
// load of the same field when no store to that field (and no call receiving the variable's address) can
// execute between the two.
var loadRepCache = map[ssa.Value]ssa.Value{}

func loadRep(v ssa.Value) ssa.Value {
	ld, ok := v.(*ssa.UnOp)
	if !ok || ld.Op != token.MUL {
		return nil
	}
	if al, ok := ld.X.(*ssa.Alloc); ok {
		return loadRepVar(ld, al)
	}
	fa, ok := ld.X.(*ssa.FieldAddr)
	if !ok {
		return nil
	}
	al, ok := fa.X.(*ssa.Alloc)
	if !ok {
		return nil
	}
	if r, ok := loadRepCache[v]; ok {
		return r
	}
	loadRepCache[v] = nil
	f := ld.Parent()
	var writers []ssa.Instruction
	var loads []*ssa.UnOp
	for _, u := range *al.Referrers() {
		switch x := u.(type) {
		case *ssa.FieldAddr:
			for _, u2 := range *x.Referrers() {
				switch y := u2.(type) {
				case *ssa.Store:
					if y.Addr == ssa.Value(x) && x.Field == fa.Field {
						writers = append(writers, y)
					}
				case *ssa.UnOp:
					if x.Field == fa.Field && y.Op == token.MUL {
						loads = append(loads, y)
					}
				case ssa.CallInstruction:
					writers = append(writers, y) // address of the field passed on
				}
			}
		case ssa.CallInstruction:
			writers = append(writers, x) // &local passed to a call
		case *ssa.MakeInterface:
			// &local boxed (e.g. for asn1.Unmarshal): its users are calls
			for _, u2 := range *x.Referrers() {
				if ci, ok := u2.(ssa.CallInstruction); ok {
					writers = append(writers, ci)
				}
			}
		case *ssa.Store:
			if x.Addr == ssa.Value(al) {
				writers = append(writers, x)
			}
		}
	}
	_ = f
	var best *ssa.UnOp
	for _, l1 := range loads {
		if l1 == ld || !instrDominates(l1, ld) {
			continue
		}
		okRep := true
		for _, w := range writers {
			if instrReaches(w, ld, l1) && !instrDominates(w, l1) {
				okRep = false
				break
			}
			// a writer that dominates l1 could still re-execute in a loop between l1 and ld
			if instrDominates(w, l1) && instrReaches(w, ld, l1) && instrReaches(l1, w, nil) {
				okRep = false
				break
			}
		}
		if okRep && (best == nil || instrDominates(l1, best)) {
			best = l1
		}
	}
	if best != nil {
		loadRepCache[v] = best
		return best
	}
	return nil
}

var lbSite bool

// lbDepthLimit: nesting of case splits the prover may try (quick: 4, thorough: 5)
var lbDepthLimit = 4

// lbOvfMode: LBs created by bidx and the C18 rules treat 64-bit arithmetic as possibly overflowing
var lbOvfMode bool
var lbDumpFn = os.Getenv("GMSMCHECK_LBFUNC")
var lbDump = os.Getenv("GMSMCHECK_LBDUMP") != ""

func linString(l lin) string {
	var parts []string
	for v, c := range l.c {
		n := v.v.Name()
		if in, ok := v.v.(ssa.Instruction); ok {
			n += "{" + strings.TrimSpace(in.String()) + "}"
		}
		parts = append(parts, fmt.Sprintf("%d*%s#%d", c, n, v.kind))
	}
	sort.Strings(parts)
	return strings.Join(parts, " + ") + fmt.Sprintf(" + %d", l.k)
}

// slicePhiFacts: a loop-header slice d with d = d[k:] on its only back edge (k constant) shrinks by k per
// iteration: len(d) <= len(d0), and len(d0) - len(d) advances in lockstep with every integer counter of
// the same header that steps once per back edge.
func (lb *LB) slicePhiFacts(phi *ssa.Phi) []cons {
	h := phi.Block()
	if len(phi.Edges) != 2 {
		return nil
	}
	var entry ssa.Value
	var k int64 = -1
	for i, e := range phi.Edges {
		if h.Dominates(h.Preds[i]) {
			sl, ok := e.(*ssa.Slice)
			if !ok || sl.X != ssa.Value(phi) || sl.High != nil || sl.Max != nil {
				return nil
			}
			if sl.Low == nil {
				k = 0
			} else if c, ok := constInt(sl.Low); ok && c >= 0 {
				k = c
			} else {
				return nil
			}
		} else {
			entry = e
		}
	}
	if entry == nil || k < 0 {
		return nil
	}
	me := linVar(lvar{1, phi})
	l0 := lb.lenLin(entry)
	if _, dep := l0.c[lvar{1, phi}]; dep {
		return nil
	}
	out := []cons{le(me, l0)}
	for _, q := range phisOf(h) {
		if q == phi {
			continue
		}
		iv, ok := inductionOf(q)
		if !ok || iv.step == 0 {
			continue
		}
		// q's constant edge must be the entry edge
		ci := -1
		for i, e := range q.Edges {
			if _, isC := constInt(e); isC {
				ci = i
			}
		}
		if ci < 0 || h.Dominates(h.Preds[ci]) {
			continue
		}
		// (q - q0)*k == (len(d0) - len(d))*step
		l := linVar(lvar{0, q}).addScaled(linConst(iv.init), -1).scale(k)
		r := l0.addScaled(me, -1).scale(iv.step)
		out = append(out, eqc(l, r)...)
	}
	return out
}

// storeFwd: the value a field load observes when exactly one store to that field of the same base object
// dominates the load and no other possible writer of the field (a store to the same field of any object of
// that struct type, a call or closure that receives the base object) can execute between the store and the load.
var storeFwdCache = map[ssa.Value]ssa.Value{}

func storeFwd(v ssa.Value) ssa.Value {
	ld, ok := v.(*ssa.UnOp)
	if !ok || ld.Op != token.MUL {
		return nil
	}
	fa, ok := ld.X.(*ssa.FieldAddr)
	if !ok {
		return nil
	}
	switch fa.X.(type) {
	case *ssa.Parameter, *ssa.Alloc:
	default:
		return nil
	}
	if r, ok := storeFwdCache[v]; ok {
		return r
	}
	storeFwdCache[v] = nil
	f := ld.Parent()
	if f == nil {
		return nil
	}
	var writers []ssa.Instruction
	var cands []*ssa.Store
	baseT := fa.X.Type().String()
	instrsOf(f, func(_ *ssa.BasicBlock, in ssa.Instruction) {
		switch x := in.(type) {
		case *ssa.Store:
			if fa2, ok := x.Addr.(*ssa.FieldAddr); ok && fa2.Field == fa.Field && fa2.X.Type().String() == baseT {
				writers = append(writers, x)
				if fa2.X == fa.X {
					cands = append(cands, x)
				}
				return
			}
			// the whole struct overwritten, or the field's address stored somewhere
			if x.Addr == fa.X {
				writers = append(writers, x)
			}
			if fa2, ok := x.Val.(*ssa.FieldAddr); ok && fa2.Field == fa.Field && fa2.X.Type().String() == baseT {
				writers = append(writers, x)
			}
		case ssa.CallInstruction:
			for _, a := range x.Common().Args {
				if a == fa.X || a.Type().String() == baseT {
					writers = append(writers, x)
					return
				}
				if fa2, ok := a.(*ssa.FieldAddr); ok && fa2.X.Type().String() == baseT && fa2.Field == fa.Field {
					writers = append(writers, x)
					return
				}
				if mi, ok := a.(*ssa.MakeInterface); ok && (mi.X == fa.X || mi.X.Type().String() == baseT) {
					writers = append(writers, x)
					return
				}
			}
			if x.Common().IsInvoke() && x.Common().Value == fa.X {
				writers = append(writers, x)
			}
		case *ssa.MakeClosure:
			for _, b := range x.Bindings {
				if b == fa.X {
					writers = append(writers, x)
				}
			}
		}
	})
	var best *ssa.Store
	for _, st := range cands {
		if !instrDominates(st, ld) {
			continue
		}
		ok := true
		for _, w := range writers {
			if w == ssa.Instruction(st) {
				continue
			}
			if instrReaches(w, ld, st) && (instrReaches(st, w, nil) || !instrDominates(w, st)) {
				ok = false
				break
			}
		}
		if ok {
			best = st
		}
	}
	if best == nil {
		return nil
	}
	storeFwdCache[v] = best.Val
	return best.Val
}

// loadRepVar: two loads of a local variable (e.g. a slice filled by asn1.Unmarshal(..., &v)) denote the same
// value when no store to the variable and no call or closure that received its address can execute between them.
func loadRepVar(ld *ssa.UnOp, al *ssa.Alloc) ssa.Value {
	if r, ok := loadRepCache[ld]; ok {
		return r
	}
	loadRepCache[ld] = nil
	var writers []ssa.Instruction
	var loads []*ssa.UnOp
	for _, u := range *al.Referrers() {
		switch x := u.(type) {
		case *ssa.UnOp:
			if x.Op == token.MUL {
				loads = append(loads, x)
			}
		case *ssa.Store:
			if x.Addr == ssa.Value(al) {
				writers = append(writers, x)
			} else {
				return nil // the address itself is stored somewhere
			}
		case ssa.CallInstruction:
			writers = append(writers, x)
		case *ssa.MakeInterface:
			for _, u2 := range *x.Referrers() {
				if ci, ok := u2.(ssa.CallInstruction); ok {
					writers = append(writers, ci)
				} else if _, ok := u2.(*ssa.DebugRef); !ok {
					return nil
				}
			}
		case *ssa.DebugRef:
		default:
			return nil // field/index addresses, closures, phis: not tracked
		}
	}
	var best *ssa.UnOp
	for _, l1 := range loads {
		if l1 == ld || !instrDominates(l1, ld) {
			continue
		}
		ok := true
		for _, w := range writers {
			if instrReaches(w, ld, l1) && !instrDominates(w, l1) {
				ok = false
				break
			}
			if instrDominates(w, l1) && instrReaches(w, ld, l1) && instrReaches(l1, w, nil) {
				ok = false
				break
			}
		}
		if ok && (best == nil || instrDominates(l1, best)) {
			best = l1
		}
	}
	if best != nil {
		loadRepCache[ld] = best
		return best
	}
	return nil
}

// restContract: library decoders that return the unconsumed rest of their input never return more than they got:
// rest, err := asn1.Unmarshal(b, &v) and block, rest := pem.Decode(b) have len(rest) <= len(b).
func (lb *LB) restContract(x *ssa.Extract, call *ssa.Call, me lin) []cons {
	id := calleeID(&call.Call)
	switch {
	case (id == "encoding/asn1.Unmarshal" || id == "encoding/asn1.UnmarshalWithParams") && x.Index == 0,
		id == "encoding/pem.Decode" && x.Index == 1:
		return []cons{le(me, lb.lenLin(call.Call.Args[0]))}
	}
	return nil
}

// intContract: facts about the arguments and results of a repo function that hold whenever it returned a nil
// error. The guarantee side is checked by checkIntContracts on every non-failing return of the function, with the
// same facts assumed for its own recursive calls (induction on the recursion depth).
type intContract struct {
	facts       func(lb *LB, arg func(i int) ssa.Value, resInt func(i int) lin) []cons
	desc        string
	errIndex    int
	intResults  []int
	justifiedBy string
}

var repoIntContracts = map[string]intContract{}

func init() {
	repoIntContracts["x509.readObject"] = intContract{
		desc:       "on success: 0 <= offset < len(ber) and offset+2 <= next offset <= len(ber)",
		errIndex:   2,
		intResults: []int{1},
		facts: func(lb *LB, arg func(i int) ssa.Value, res func(i int) lin) []cons {
			off, n := lb.linOf(arg(1)), lb.lenLin(arg(0))
			return []cons{ge(off, linConst(0)), le(off, n.addScaled(linConst(1), -1)), ge(res(1), off.addScaled(linConst(2), 1)), le(res(1), n)}
		},
		justifiedBy: "B-CONTRACT obligations on x509.readObject",
	}
	repoIntContracts["x509.isIndefiniteTermination"] = intContract{
		desc:     "on success: 0 <= offset and offset+2 <= len(ber)",
		errIndex: 1,
		facts: func(lb *LB, arg func(i int) ssa.Value, res func(i int) lin) []cons {
			off, n := lb.linOf(arg(1)), lb.lenLin(arg(0))
			return []cons{ge(off, linConst(0)), le(off.addScaled(linConst(2), 1), n)}
		},
		justifiedBy: "B-CONTRACT obligations on x509.isIndefiniteTermination",
	}
}

// nilTestFacts: facts implied by `v == nil` (isNil) or `v != nil`
func (lb *LB) nilTestFacts(v ssa.Value, isNil bool) []cons {
	ex, ok := v.(*ssa.Extract)
	if !ok {
		return nil
	}
	call, ok := ex.Tuple.(*ssa.Call)
	if !ok {
		return nil
	}
	sibling := func(i int) ssa.Value {
		for _, u := range *call.Referrers() {
			if e2, ok := u.(*ssa.Extract); ok && e2.Index == i {
				return e2
			}
		}
		return nil
	}
	id := calleeID(&call.Call)
	switch {
	case id == "encoding/asn1.Unmarshal" || id == "encoding/asn1.UnmarshalWithParams":
		// err == nil, or rest != nil (rest is nil on every error): a whole TLV, at least two bytes, was consumed
		if (ex.Index == 1 && isNil) || (ex.Index == 0 && !isNil) {
			if rest := sibling(0); rest != nil {
				return []cons{le(linVar(lvar{1, lenBase(rest)}), lb.lenLin(call.Call.Args[0]).addScaled(linConst(2), -1))}
			}
		}
	case id == "encoding/pem.Decode":
		// block != nil: at least the BEGIN line was consumed
		if ex.Index == 0 && !isNil {
			if rest := sibling(1); rest != nil {
				return []cons{le(linVar(lvar{1, lenBase(rest)}), lb.lenLin(call.Call.Args[0]).addScaled(linConst(1), -1))}
			}
		}
	}
	if sc := call.Call.StaticCallee(); sc != nil && inRepo(sc) {
		if ct, ok := repoIntContracts[fname(sc)]; ok && ex.Index == ct.errIndex && isNil {
			lb.UsedContracts[fname(sc)] = true
			return ct.facts(lb, func(i int) ssa.Value { return call.Call.Args[i] }, func(i int) lin {
				if r := sibling(i); r != nil {
					return linVar(lvar{0, r})
				}
				return linVar(lvar{0, call})
			})
		}
	}
	return nil
}

// loopLowerInvariant: phi >= its entry value, when every back-edge value is >= the entry value under that hypothesis
var loopLowerCache = map[*ssa.Phi]int{}

func (lb *LB) loopLowerInvariant(phi *ssa.Phi) (lin, bool) {
	h := phi.Block()
	var entry ssa.Value
	for i := range phi.Edges {
		if !h.Dominates(h.Preds[i]) {
			if entry != nil && entry != phi.Edges[i] {
				return lin{}, false
			}
			entry = phi.Edges[i]
		}
	}
	if entry == nil {
		return lin{}, false
	}
	L := lb.linOf(entry)
	if _, dep := L.c[lvar{0, phi}]; dep {
		return lin{}, false
	}
	switch loopLowerCache[phi] {
	case 1, 3:
		return lin{}, false
	case 2:
		return L, true
	}
	loopLowerCache[phi] = 1
	me := linVar(lvar{0, phi})
	ok := true
	for i, e := range phi.Edges {
		p := h.Preds[i]
		if !h.Dominates(p) {
			continue
		}
		facts := append(lb.edgeFacts(p, h), ge(me, L))
		if !lb.proveAtBlock(p, []cons{ge(lb.linOf(e), L)}, append(facts, lb.extra...), 2) {
			ok = false
			break
		}
	}
	if ok {
		loopLowerCache[phi] = 2
		return L, true
	}
	loopLowerCache[phi] = 3
	return lin{}, false
}

func isLoopHeader(h *ssa.BasicBlock) bool {
	for _, p := range h.Preds {
		if h.Dominates(p) {
			return true
		}
	}
	return false
}

// ---- affine lower bounds relative to one base (a constant or an integer parameter): v >= base + c.
// A small forward analysis that spares the prover a case split per phi: constants, parameters, unsigned values,
// x + k, x - k, widening conversions, phis (meet of the incoming bounds; loop-header phis by checking that the
// entry bound is preserved by every back edge).

type relBound struct {
	base *ssa.Parameter // nil: constant base
	c    int64
	ok   bool
}

func meetLower(a, b relBound) relBound {
	if !a.ok || !b.ok || a.base != b.base {
		return relBound{}
	}
	if b.c < a.c {
		return b
	}
	return a
}

func (lb *LB) lowerRel(v ssa.Value, assume map[*ssa.Phi]relBound, depth int) relBound {
	if depth > 40 {
		return relBound{}
	}
	if k, ok := constInt(v); ok {
		return relBound{nil, k, true}
	}
	bits, uns, isInt := intKind(v.Type())
	if !isInt {
		return relBound{}
	}
	fallback := relBound{}
	if uns {
		fallback = relBound{nil, 0, true}
	}
	switch x := v.(type) {
	case *ssa.Parameter:
		if !uns {
			return relBound{x, 0, true}
		}
	case *ssa.BinOp:
		if bits < 64 {
			return fallback // narrow arithmetic may wrap
		}
		switch x.Op {
		case token.ADD:
			a, b := lb.lowerRel(x.X, assume, depth+1), lb.lowerRel(x.Y, assume, depth+1)
			if a.ok && b.ok {
				if b.base == nil {
					return relBound{a.base, a.c + b.c, true}
				}
				if a.base == nil {
					return relBound{b.base, a.c + b.c, true}
				}
			}
		case token.SUB:
			if !uns {
				if k, ok := constInt(x.Y); ok {
					a := lb.lowerRel(x.X, assume, depth+1)
					if a.ok {
						return relBound{a.base, a.c - k, true}
					}
				}
			}
		case token.AND, token.REM:
			if lb.nonneg(x, 0) {
				return relBound{nil, 0, true}
			}
		}
	case *ssa.Convert:
		sb, su, ok1 := intKind(x.X.Type())
		if ok1 && bits > sb && !uns {
			return lb.lowerRel(x.X, assume, depth+1)
		}
		if ok1 && bits >= sb && su && !uns && bits == 64 {
			return lb.lowerRel(x.X, assume, depth+1)
		}
	case *ssa.Call:
		if bi, ok := x.Call.Value.(*ssa.Builtin); ok && (bi.Name() == "len" || bi.Name() == "cap") {
			return relBound{nil, 0, true}
		}
	case *ssa.Phi:
		if b, ok := assume[x]; ok {
			return b
		}
		h := x.Block()
		if !isLoopHeader(h) {
			var r relBound
			for i, e := range x.Edges {
				b := lb.lowerRel(e, assume, depth+1)
				if i == 0 {
					r = b
				} else {
					r = meetLower(r, b)
				}
				if !r.ok {
					return fallback
				}
			}
			return r
		}
		var cand relBound
		first := true
		for i, e := range x.Edges {
			if h.Dominates(h.Preds[i]) {
				continue
			}
			b := lb.lowerRel(e, assume, depth+1)
			if first {
				cand, first = b, false
			} else {
				cand = meetLower(cand, b)
			}
		}
		if first || !cand.ok {
			return fallback
		}
		as := map[*ssa.Phi]relBound{x: cand}
		for k, v := range assume {
			as[k] = v
		}
		for i, e := range x.Edges {
			if !h.Dominates(h.Preds[i]) {
				continue
			}
			b := lb.lowerRel(e, as, depth+1)
			if !b.ok || b.base != cand.base || b.c < cand.c {
				return fallback
			}
		}
		return cand
	}
	return fallback
}

// constOf: a constant, or a parameter pinned to one constant by the facts proven at every call site
func (lb *LB) constOf(v ssa.Value) (int64, bool) {
	if k, ok := constInt(v); ok {
		return k, true
	}
	l := lb.linOf(v)
	if len(l.c) == 0 {
		return l.k, true
	}
	return 0, false
}

// smallAdd: x + k / k + x with a small constant k and an operand that is a length, an index below a length, a
// byte or a loop counter need no overflow proof obligation of their own when the other operand is provably
// bounded by the address-space axiom; to keep the cost down only the syntactically obvious cases are skipped:
// an operand that is len/cap(...) or a narrower unsigned value.
var smallBusy = map[*ssa.Phi]bool{}

func (lb *LB) smallAdd(x *ssa.BinOp) bool {
	small := func(v ssa.Value) bool {
		if k, ok := constInt(v); ok {
			return k > -(1<<40) && k < 1<<40
		}
		switch y := v.(type) {
		case *ssa.Call:
			if bi, ok := y.Call.Value.(*ssa.Builtin); ok && (bi.Name() == "len" || bi.Name() == "cap") {
				return true
			}
		case *ssa.Convert:
			if sb, su, ok := intKind(y.X.Type()); ok && su && sb <= 32 {
				return true
			}
		}
		return false
	}
	if small(x.X) && small(x.Y) {
		return true
	}
	// a loop counter: phi + k (k a small constant) where every back edge of the loop-header phi adds a small
	// non-negative constant and the entry value is small: the counter is bounded by the number of iterations
	// executed so far, and 2^62 iterations do not happen
	counter := func(v ssa.Value) bool {
		phi, ok := v.(*ssa.Phi)
		if !ok || !isLoopHeader(phi.Block()) {
			return false
		}
		h := phi.Block()
		for i, e := range phi.Edges {
			if h.Dominates(h.Preds[i]) {
				a := affineOf(e)
				if len(a.coef) != 1 || a.coef[phi] != 1 || a.k < 0 || a.k > 1<<20 {
					return false
				}
			} else if !small(e) {
				// entry value: another counter, or a value provably far below the int64 range
				if p2, ok := e.(*ssa.Phi); ok && p2 != phi {
					continue
				}
				if smallBusy[phi] {
					return false
				}
				smallBusy[phi] = true
				ok := lb.proveAtBlock(h.Preds[i], []cons{le(lb.linOf(e), linConst(1<<49)), ge(lb.linOf(e), linConst(-(1 << 49)))}, append(lb.branchFacts(h.Preds[i]), lb.extra...), 2)
				delete(smallBusy, phi)
				if !ok {
					return false
				}
			}
		}
		return true
	}
	if k, ok := constInt(x.Y); ok && k >= -(1<<20) && k <= 1<<20 && counter(x.X) {
		return true
	}
	if k, ok := constInt(x.X); ok && k >= -(1<<20) && k <= 1<<20 && counter(x.Y) {
		return true
	}
	return false
}

// accumBound: acc = acc*K + v in a loop that runs at most T times (an index range over a slice of provable length
// <= T), acc starting at c0 >= 0 and 0 <= v <= V: acc <= c0*K^T + V*(K^T-1)/(K-1). (Mathematical values; the bound
// is only reported when it is far below 2^63, so no wrap-around can have happened on the way.)
var accumBusy = map[*ssa.Phi]bool{}

var accumCache = map[*ssa.Phi]int64{}

func (lb *LB) accumBound(phi *ssa.Phi) (int64, bool) {
	if b, ok := accumCache[phi]; ok {
		return b, b >= 0
	}
	if accumBusy[phi] {
		return 0, false
	}
	accumBusy[phi] = true
	defer delete(accumBusy, phi)
	b, ok := lb.accumBound1(phi)
	if !ok {
		b = -1
	}
	accumCache[phi] = b
	return b, ok
}

func (lb *LB) accumBound1(phi *ssa.Phi) (int64, bool) {
	h := phi.Block()
	if len(phi.Edges) != 2 || !isLoopHeader(h) {
		return 0, false
	}
	var c0 int64 = -1
	var back ssa.Value
	for i, e := range phi.Edges {
		if h.Dominates(h.Preds[i]) {
			back = e
		} else if k, ok := constInt(e); ok && k >= 0 {
			c0 = k
		}
	}
	if back == nil || c0 < 0 {
		return 0, false
	}
	// back = phi*K + v  |  phi<<s + v  |  v + phi*K
	add, ok := back.(*ssa.BinOp)
	if !ok || (add.Op != token.ADD && add.Op != token.OR) {
		return 0, false
	}
	var mulSide, vSide ssa.Value
	for _, pr := range [][2]ssa.Value{{add.X, add.Y}, {add.Y, add.X}} {
		if m, ok := pr[0].(*ssa.BinOp); ok && (m.Op == token.MUL || m.Op == token.SHL) && (m.X == ssa.Value(phi) || m.Y == ssa.Value(phi)) {
			mulSide, vSide = m, pr[1]
		}
	}
	if mulSide == nil {
		return 0, false
	}
	m := mulSide.(*ssa.BinOp)
	var K int64
	if m.Op == token.MUL {
		other := m.Y
		if m.Y == ssa.Value(phi) {
			other = m.X
		}
		k, ok := constInt(other)
		if !ok || k < 2 || k > 1<<16 {
			return 0, false
		}
		K = k
	} else {
		if m.X != ssa.Value(phi) {
			return 0, false
		}
		s, ok := constInt(m.Y)
		if !ok || s < 1 || s > 16 {
			return 0, false
		}
		K = 1 << uint(s)
	}
	// 0 <= v <= V from the type of the (converted) operand
	var V int64 = -1
	vv := vSide
	for {
		if cv, ok := vv.(*ssa.Convert); ok {
			if sb, su, ok := intKind(cv.X.Type()); ok && su && sb <= 16 {
				V = int64(1)<<uint(sb) - 1
				break
			}
			vv = cv.X
			continue
		}
		break
	}
	if V < 0 || (add.Op == token.OR && V >= K) {
		return 0, false
	}
	// trip count: the header's range index r (init -1, +1) is compared with len(S); T = proven bound on len(S)
	var T int64 = -1
	for _, q := range phisOf(h) {
		iv, ok := inductionOf(q)
		if !ok || iv.init != -1 || iv.step != 1 {
			continue
		}
		ifi, ok := lastIf(h)
		if !ok {
			continue
		}
		cmp, ok := ifi.Cond.(*ssa.BinOp)
		if !ok || cmp.Op != token.LSS {
			continue
		}
		inc, ok := cmp.X.(*ssa.BinOp)
		if !ok || inc.Op != token.ADD || inc.X != ssa.Value(q) {
			continue
		}
		n := lb.linOf(cmp.Y)
		for _, t := range []int64{1, 2, 3, 4, 5, 6, 7, 8} {
			var pred *ssa.BasicBlock
			for i := range h.Preds {
				if !h.Dominates(h.Preds[i]) {
					pred = h.Preds[i]
				}
			}
			if pred != nil && lb.proveAtBlock(pred, []cons{le(n, linConst(t))}, append(lb.branchFacts(pred), lb.extra...), 2) {
				T = t
				break
			}
		}
	}
	if lbDump && strings.Contains(fname(lb.f), lbDumpFn) {
		dbg("accumBound %s: K=%d V=%d c0=%d T=%d", phi.Comment, K, V, c0, T)
	}
	if T < 0 {
		return 0, false
	}
	// bound = c0*K^T + V*(K^T-1)/(K-1), refuse when above 2^60
	pow := int64(1)
	for i := int64(0); i < T; i++ {
		if pow > (1<<60)/K {
			return 0, false
		}
		pow *= K
	}
	geo := (pow - 1) / (K - 1)
	if c0 > 0 && pow > (1<<60)/(c0+1) {
		return 0, false
	}
	if V > 0 && geo > (1<<60)/V {
		return 0, false
	}
	b := c0*pow + V*geo
	if b > 1<<60 {
		return 0, false
	}
	return b, true
}

// joinUpper: upper bounds of a non-loop phi: a bound L (an operand of a comparison that guards one of the incoming
// paths) such that every incoming value is <= L under the conditions of its own edge.
var joinUpperCache = map[*ssa.Phi][]cons{}
var joinUpperBusy = map[*ssa.Phi]bool{}

func (lb *LB) joinUpper(phi *ssa.Phi) []cons {
	if r, ok := joinUpperCache[phi]; ok {
		return r
	}
	if joinUpperBusy[phi] {
		return nil
	}
	joinUpperBusy[phi] = true
	defer delete(joinUpperBusy, phi)
	blk := phi.Block()
	me := linVar(lvar{0, phi})
	var cands []lin
	seen := map[string]bool{}
	add := func(l lin) {
		if _, dep := l.c[lvar{0, phi}]; dep {
			return
		}
		k := linString(l)
		if !seen[k] {
			seen[k] = true
			cands = append(cands, l)
		}
	}
	for i := range phi.Edges {
		p := blk.Preds[i]
		for d := p; d != nil; d = d.Idom() {
			ifi, ok := lastIf(d)
			if !ok {
				continue
			}
			bo, ok := ifi.Cond.(*ssa.BinOp)
			if !ok {
				continue
			}
			switch bo.Op {
			case token.LSS, token.LEQ, token.GTR, token.GEQ:
				if _, _, isInt := intKind(bo.X.Type()); isInt {
					for _, side := range []ssa.Value{bo.X, bo.Y} {
						l := lb.linOf(side)
						add(l)
						add(l.addScaled(linConst(1), -1))
					}
				}
			}
			if len(cands) > 24 {
				break
			}
		}
	}
	var out []cons
	for _, L := range cands {
		ok := true
		for i, e := range phi.Edges {
			p := blk.Preds[i]
			if !lb.proveAtBlock(p, []cons{le(lb.linOf(e), L)}, append(lb.edgeFacts(p, blk), lb.extra...), 3) {
				ok = false
				break
			}
		}
		if ok {
			out = append(out, le(me, L))
			if len(out) >= 3 {
				break
			}
		}
	}
	joinUpperCache[phi] = out
	return out
}

// proveAtBlock: proveWith for an obligation located at the end of block b (an edge leaving b): the location
// governs the location-dependent case splits (joins on the dominator chain, error-tested callee paths)
func (lb *LB) proveAtBlock(b *ssa.BasicBlock, goals []cons, facts []cons, depth int) bool {
	saved := lb.curBlock
	lb.curBlock = b
	defer func() { lb.curBlock = saved }()
	return lb.proveWith(goals, facts, map[lvar]lin{}, depth)
}

// paramFieldRep: all loads of one field of a pointer parameter denote the same value when the function never
// stores to that field of any object of the type, never lets the field's address escape and never hands the
// pointer to a call (other than the read-only marshal/equal helpers): the representative is a fixed load.
var paramFieldRepCache = map[ssa.Value]ssa.Value{}

func paramFieldRep(v ssa.Value) ssa.Value {
	ld, ok := v.(*ssa.UnOp)
	if !ok || ld.Op != token.MUL {
		return nil
	}
	fa, ok := ld.X.(*ssa.FieldAddr)
	if !ok {
		return nil
	}
	prm, ok := fa.X.(*ssa.Parameter)
	if !ok {
		return nil
	}
	if r, ok := paramFieldRepCache[v]; ok {
		return r
	}
	paramFieldRepCache[v] = nil
	f := ld.Parent()
	if f == nil {
		return nil
	}
	clean := true
	var loads []*ssa.UnOp
	instrsOf(f, func(_ *ssa.BasicBlock, in ssa.Instruction) {
		switch x := in.(type) {
		case *ssa.Store:
			if fx, ok := x.Addr.(*ssa.FieldAddr); ok && fx.Field == fa.Field && fx.X.Type() == fa.X.Type() {
				clean = false
			}
			if fx, ok := x.Val.(*ssa.FieldAddr); ok && fx.Field == fa.Field && fx.X.Type() == fa.X.Type() {
				clean = false
			}
		case ssa.CallInstruction:
			for _, a := range x.Common().Args {
				if a == ssa.Value(prm) {
					if sc := x.Common().StaticCallee(); sc != nil && (sc.Name() == "marshal" || sc.Name() == "equal") {
						continue
					}
					clean = false
				}
				if fx, ok := a.(*ssa.FieldAddr); ok && fx.Field == fa.Field && fx.X.Type() == fa.X.Type() {
					clean = false
				}
			}
		case *ssa.MakeClosure:
			for _, b := range x.Bindings {
				if b == ssa.Value(prm) {
					clean = false
				}
			}
		case *ssa.UnOp:
			if x.Op == token.MUL {
				if fx, ok := x.X.(*ssa.FieldAddr); ok && fx.X == ssa.Value(prm) && fx.Field == fa.Field {
					loads = append(loads, x)
				}
			}
		}
	})
	if !clean || len(loads) == 0 {
		return nil
	}
	// representative: the first load in block order
	rep := loads[0]
	for _, l := range loads {
		paramFieldRepCache[l] = rep
	}
	return rep
}

// fieldValueRep: loads of one field path of one object (a parsed message, a local) denote the same value when the
// function never stores to that field of any object of the type and never hands the object to a call other than
// the read-only marshal/equal helpers: the representative is the first such load.
var fieldValueRepCache = map[ssa.Value]ssa.Value{}

func fieldValueRep(v ssa.Value) ssa.Value {
	ld, ok := v.(*ssa.UnOp)
	if !ok || ld.Op != token.MUL {
		return nil
	}
	fa, ok := ld.X.(*ssa.FieldAddr)
	if !ok {
		return nil
	}
	if r, ok := fieldValueRepCache[v]; ok {
		return r
	}
	fieldValueRepCache[v] = nil
	key := addrKey(ld)
	if key == "" {
		return nil
	}
	root := addrRoot(ld)
	if _, isParam := root.(*ssa.Parameter); isParam {
		if _, direct := fa.X.(*ssa.Parameter); direct {
			return nil // paramFieldRep handles fields of the parameter itself
		}
		// a field reached through a pointer held in the parameter (hs.clientHello.vers): same conditions as below
	}
	f := ld.Parent()
	if f == nil {
		return nil
	}
	clean := true
	var loads []*ssa.UnOp
	// every field on the path (hs.clientHello, then .vers): none of them may be assigned in the function
	type pf struct {
		t    types.Type
		i    int
		base ssa.Value
	}
	var path []pf
	for p := ssa.Value(fa); ; {
		switch y := p.(type) {
		case *ssa.FieldAddr:
			path = append(path, pf{y.X.Type(), y.Field, y.X})
			p = y.X
			continue
		case *ssa.UnOp:
			if y.Op == token.MUL {
				p = y.X
				continue
			}
		}
		break
	}
	instrsOf(f, func(_ *ssa.BasicBlock, in ssa.Instruction) {
		switch x := in.(type) {
		case *ssa.Store:
			if fx, ok := x.Addr.(*ssa.FieldAddr); ok {
				for _, q := range path {
					if fx.Field == q.i && types.Identical(fx.X.Type(), q.t) {
						if al, fresh := fx.X.(*ssa.Alloc); fresh && q.base != ssa.Value(al) {
							continue // a field of an object created in this function: a different object
						}
						clean = false
					}
				}
			}
		case ssa.CallInstruction:
			for ai, a := range x.Common().Args {
				if a == root {
					if sc := x.Common().StaticCallee(); sc != nil && (sc.Name() == "marshal" || sc.Name() == "equal") {
						continue
					}
					clean = false
				} else if len(path) > 1 && types.Identical(a.Type(), fa.X.Type()) {
					// the object holding the field is handed to a callee: fine when the callee provably does not
					// write that field of that argument (write-effect summary), otherwise the loads may differ
					sc := x.Common().StaticCallee()
					if sc != nil && (sc.Name() == "marshal" || sc.Name() == "equal") {
						continue
					}
					if sc == nil || !inRepo(sc) || fxCache == nil || x.Common().IsInvoke() {
						clean = false
						continue
					}
					fn := fieldName(fa.X.Type(), fa.Field)
					for r := range fxCache.Writes(sc) {
						if r.Kind == rkParam && r.Idx == ai && (r.Field == "" || r.Field == fn) {
							clean = false
						}
					}
				}
			}
		case *ssa.UnOp:
			if x.Op == token.MUL && addrKey(x) == key {
				loads = append(loads, x)
			}
		}
	})
	if !clean || len(loads) == 0 {
		return nil
	}
	rep := loads[0]
	for _, l := range loads {
		fieldValueRepCache[l] = rep
	}
	return rep
}
