package main

// C13 — SM2 key exchange (GM/T 0003.3)

import (
	"fmt"
	"go/token"
	"go/types"
	"strings"

	"golang.org/x/tools/go/ssa"
)

func init() { register("C13", checkC13) }

// condPhi: for a 2-edge phi selected by a boolean parameter, returns the canonical values when the
// parameter is true / false.
func condPhi(phi *ssa.Phi, cond ssa.Value, canon func(v ssa.Value, at ssa.Instruction) string) (string, string, bool) {
	if len(phi.Edges) != 2 {
		return "", "", false
	}
	blk := phi.Block()
	for d := blk.Idom(); d != nil; d = d.Idom() {
		ifi, ok := lastIf(d)
		if !ok {
			continue
		}
		c := ifi.Cond
		neg := false
		if u, ok := c.(*ssa.UnOp); ok && u.Op == token.NOT {
			c, neg = u.X, true
		}
		if c != cond {
			return "", "", false
		}
		var t, f string
		for i, p := range blk.Preds {
			last := p.Instrs[len(p.Instrs)-1]
			s := canon(phi.Edges[i], last)
			onTrue := d.Succs[0] == p || (d.Succs[0].Dominates(p) && d.Succs[0] != blk)
			if p == d {
				// edge straight from the If block: it is the side whose successor is the phi block
				onTrue = d.Succs[0] == blk
			}
			if onTrue != neg {
				t = s
			} else {
				f = s
			}
		}
		return t, f, t != "" && f != ""
	}
	return "", "", false
}

func checkC13(c *Ctx) {
	c.Decided = append(c.Decided,
		"G-C13-oncurve: the peer's ephemeral point must pass IsOnCurve before it is used in any curve operation",
		"G-C13-err: the point-at-infinity test on V, both ZA errors and a zero KDF output each abort with an error (no overwritten error)",
		"K-C13-formulas: t = (d + x̄·r) mod n with x̄ from the caller's ephemeral x; V = [t](P_peer + [x̄_peer]R_peer); K = KDF(klen, pad32(xV)||pad32(yV)||ZA||ZB); ZA over the initiator's key and ida, ZB over the responder's key and idb in both roles",
		"T-C13-order: the inner hash is over xV||ZA||ZB||x1||y1||x2||y2 with (x1,y1) the initiator's ephemeral point in both roles, all coordinates 32 bytes; S1 = H(0x02||yV||h), S2 = H(0x03||yV||h)",
		"K-C13-xhat: x̄ = 2^127 + (x mod 2^127)",
		"G-HASH-reuse: in package sm2 no Write on a locally created hash object is reachable from a Sum on it unless a Reset of the object cuts every path between them",
		"K-C02-kdf: the KDF that turns xV||yV||ZA||ZB into the shared key is SM3(Z||ct), ct = 1,2,… with the hash reset per block (the rule of C02, evaluated here too because the agreed key beyond 32 bytes depends on it)")
	c.NotDec = append(c.NotDec, "numerical equality of the derived keys with GM/T 0003.3 (curve arithmetic is C03, SM3 is C04)")
	c13Inputs(c)
	c02KDF(c)
	c01ZA(c)     // ZA/ZB are the ZA of C01
	c03Tables(c) // V = [t](P + [x]R) uses the curve addition: its special cases (rules of C03)
	c03Formulas(c)
	c03Special(c)
	f := c.Fn("sm2", "keyExchange")
	if f == nil {
		c.Missing("K-C13-formulas", "sm2.keyExchange", "function", "not found")
		return
	}
	fn := fname(f)
	names := paramNames(f, "klen", "ida", "idb", "pri", "pub", "rpri", "rpub", "thisISA")
	be := newBigEnv(f, names)
	thisISA := f.Params[7]
	spec, _ := defaultResultSpec(f)
	ex := successExits(f, spec)
	canonB := func(v ssa.Value, at ssa.Instruction) string { return be.bytesOf(v, at).String() }
	canonP := func(v ssa.Value, at ssa.Instruction) string { return be.plain(v, at).String() }

	// ---- on-curve
	ops := curveOps(f)
	onc := boolCallAtoms(f, func(cl *ssa.Call) bool {
		if !cl.Call.IsInvoke() || cl.Call.Method.Name() != "IsOnCurve" {
			return false
		}
		// ... asked of a curve that is not taken from the peer's own ephemeral key object (whoever sends the point
		// must not choose the curve it is tested against)
		if strings.HasPrefix(be.plain(cl.Call.Value, cl).String(), "rpub.") {
			return false
		}
		return be.plain(cl.Call.Args[0], cl).String() == "rpub.X" && be.plain(cl.Call.Args[1], cl).String() == "rpub.Y"
	}, true, "IsOnCurve(rpub)")
	g := evalGuard(c.P, f, onc, spec, ops)
	c.Check(g.OK, "G-C13-oncurve", fn, "IsOnCurve(peer ephemeral) before any curve operation", g.Why, "a peer ephemeral value that is not a curve point must yield an error before it is used: "+g.Why, g.Pos)

	// ---- V formula
	XH1 := "call:sm2.keXHat(rpub.X)"
	SM1 := "call:ScalarMult(rpub.X,rpub.Y,bytes(" + XH1 + "))"
	ADD := "call:Add(pub.X,pub.Y,res0(" + SM1 + "),res1(" + SM1 + "))"
	T := "mod(add(mul(call:sm2.keXHat(rpri.PublicKey.X),rpri.D),pri.D),N)"
	V := "call:ScalarMult(res0(" + ADD + "),res1(" + ADD + "),bytes(" + T + "))"
	var vcall *ssa.Call
	for _, in := range ops {
		call := in.(*ssa.Call)
		if normBig(be.plain(call, call).String()) == V {
			vcall = call
		}
	}
	c.Check(vcall != nil, "K-C13-formulas", fn, "V = [t](P_peer + [x̄_peer]R_peer), t = (d + x̄ r) mod n", "", "no curve operation computes "+V, f.Pos())
	ab := abbrevs{{"pad32(res0(" + V + "))", "XV"}, {"pad32(res1(" + V + "))", "YV"}, {"res0(" + V + ")", "xv"}, {"res1(" + V + ")", "yv"}}
	norm := func(s string) string { return ab.apply(normBig(s)) }

	// ---- infinity test
	var inf = map[string][]Atom{}
	for _, ifi := range ifsOf(f) {
		st, ok := decodeSignTest(ifi.Cond)
		if !ok {
			continue
		}
		xv := norm(be.valueAt(st.X, st.Call).String())
		isZeroTest := st.Kind == "Sign" || (st.Kind == "Cmp" && be.valueAt(st.Y, st.Call).String() == "0x0")
		if !isZeroTest || (xv != "xv" && xv != "yv") {
			continue
		}
		if ps, ok := passSuccFor([3]bool{true, false, true}, st.TrueSet); ok {
			inf[xv] = append(inf[xv], Atom{ifi, ps, xv + " != 0"})
		}
	}
	kd := findCall(f, "kdf")
	var kdSink []ssa.Instruction
	if kd != nil {
		kdSink = append(kdSink, kd)
	}
	// V = O is (0,0): either coordinate test suffices to exclude it
	gx := evalGuard(c.P, f, inf["xv"], spec, kdSink)
	gy := evalGuard(c.P, f, inf["yv"], spec, kdSink)
	okInf := gx.OK || gy.OK
	why := gx.Why
	if !gx.OK && len(inf["xv"]) == 0 {
		why = gy.Why
	}
	c.Check(okInf, "G-C13-err", fn, "V at infinity is an error", "", "when V is the point at infinity (0,0) an error must be returned before a key is derived: "+why, gx.Pos)
	// name the key-selection phis so that ZA/ZB have stable canonical names
	for _, ci := range allCalls(f) {
		if call, ok := ci.(*ssa.Call); ok {
			if sc := call.Call.StaticCallee(); sc != nil && sc.Name() == "ZA" {
				if phi, isPhi := call.Call.Args[0].(*ssa.Phi); isPhi {
					if strings.Contains(be.plain(call.Call.Args[1], call).String(), "idb") {
						names[phi] = "KEYB"
					} else {
						names[phi] = "KEYA"
					}
				}
			}
		}
	}
	// ---- ZA errors
	nza := 0
	for _, ci := range allCalls(f) {
		call, ok := ci.(*ssa.Call)
		if !ok {
			continue
		}
		if sc := call.Call.StaticCallee(); sc == nil || sc.Name() != "ZA" {
			continue
		}
		nza++
		g := evalGuard(c.P, f, errCheckAtoms(f, func(cl *ssa.Call) bool { return cl == call }, "ZA error"), spec, kdSink)
		which := "ida"
		if strings.Contains(be.plain(call.Call.Args[1], call).String(), "idb") {
			which = "idb"
		}
		c.Check(g.OK, "G-C13-err", fn, "error of ZA("+which+") is returned", g.Why, "an error computing Z (identity too long) must abort the exchange: "+g.Why, call.Pos())
		// which key
		tv, fv, ok := "", "", false
		if phi, isPhi := call.Call.Args[0].(*ssa.Phi); isPhi {
			nm := names[phi]
			delete(names, phi)
			tv, fv, ok = condPhi(phi, thisISA, canonP)
			names[phi] = nm
		}
		wantT, wantF := "field:PublicKey(pri)", "pub"
		if which == "idb" {
			wantT, wantF = "pub", "field:PublicKey(pri)"
		}
		c.Check(ok && tv == wantT && fv == wantF, "K-C13-formulas", fn, "Z for "+which+" uses the right party's public key", "", "Z"+which[2:]+" is computed over ("+tv+" when initiator, "+fv+" when responder)", call.Pos())
	}
	c.Check(nza == 2, "K-C13-formulas", fn, "ZA and ZB both computed", "", "expected two ZA computations", f.Pos())
	// ---- KDF
	if kd == nil {
		c.Violated("K-C13-formulas", fn, "K = KDF(klen, xV||yV||ZA||ZB)", "kdf is not called", f.Pos())
		return
	}
	gotK := norm(be.bytesOf(kd, kd).String())
	ZAc, ZBc := "", ""
	// names of the two ZA results
	for _, ci := range allCalls(f) {
		call, ok := ci.(*ssa.Call)
		if !ok {
			continue
		}
		if sc := call.Call.StaticCallee(); sc != nil && sc.Name() == "ZA" {
			s := "res0(" + be.bytesOf(call, call).String() + ")"
			if strings.Contains(s, "ida") {
				ZAc = s
			} else {
				ZBc = s
			}
		}
	}
	ab = append(ab, [2]string{ZAc, "ZA"}, [2]string{ZBc, "ZB"})
	gotK = norm(be.bytesOf(kd, kd).String())
	c.Check(gotK == "call:sm2.kdf(klen,lit(XV,YV,ZA,ZB))", "K-C13-formulas", fn, "K = KDF(klen, pad32(xV)||pad32(yV)||ZA||ZB)", "", "KDF input is "+gotK, kd.Pos())
	g = evalGuard(c.P, f, boolCallAtoms(f, func(cl *ssa.Call) bool { return cl == kd }, true, "kdf ok"), spec, nil)
	c.Check(g.OK, "G-C13-err", fn, "zero KDF output is an error", g.Why, g.Why, g.Pos)
	// ---- hashes
	for _, b := range f.Blocks {
		ret, ok := b.Instrs[len(b.Instrs)-1].(*ssa.Return)
		if !ok || !ex.blocks[b] {
			continue
		}
		gk := norm(be.bytesOf(ret.Results[0], ret).String())
		c.Check(gk == "res0(call:sm2.kdf(klen,lit(XV,YV,ZA,ZB)))", "K-C13-formulas", fn, "returns the derived key", "", "returned key is "+gk, ret.Pos())
		// inner hash: find the Sm3Sum(BytesCombine(lit(XV,ZA,ZB,p1,p2,p3,p4)))
		var inner *ssa.Call
		var parts []ssa.Value
		for _, ci := range allCalls(f) {
			call, ok := ci.(*ssa.Call)
			if !ok {
				continue
			}
			if sc := call.Call.StaticCallee(); sc != nil && sc.Name() == "BytesCombine" {
				if el, ok := arrayLit(call.Call.Args[0]); ok && len(el) == 7 {
					inner, parts = call, el
				}
			}
		}
		if inner == nil {
			c.Undecided("T-C13-order", fn, "inner hash over seven parts", "no BytesCombine of seven parts found", f.Pos())
			continue
		}
		var desc []string
		okOrder := true
		want := []string{"pad32(rpri.PublicKey.X)", "pad32(rpri.PublicKey.Y)", "pad32(rpub.X)", "pad32(rpub.Y)"}
		for i, p := range parts {
			if i < 3 {
				s := norm(be.bytesOf(p, inner).String())
				desc = append(desc, s)
				if s != []string{"XV", "ZA", "ZB"}[i] {
					okOrder = false
				}
				continue
			}
			phi, isPhi := p.(*ssa.Phi)
			if !isPhi {
				// the points may have been chosen by role BEFORE they were encoded (ra, rb := own, peer; swapped for
				// the responder): evaluate the part once per role, with every pointer phi governed by thisISA replaced
				// by the input of that role
				roleForm := func(role bool) string {
					nm := map[ssa.Value]string{}
					for k, v := range names {
						nm[k] = v
					}
					instrsOf(f, func(_ *ssa.BasicBlock, in ssa.Instruction) {
						ph, ok := in.(*ssa.Phi)
						if !ok || len(ph.Edges) != 2 {
							return
						}
						if _, isPtr := ph.Type().Underlying().(*types.Pointer); !isPtr {
							return
						}
						nameOf := func(v ssa.Value, at ssa.Instruction) string {
							switch x := v.(type) {
							case *ssa.Parameter:
								return names[x]
							case *ssa.FieldAddr:
								return be.fieldPath(x)
							}
							return ""
						}
						tv, fv, ok := condPhi(ph, thisISA, func(v ssa.Value, at ssa.Instruction) string { return nameOf(v, at) })
						if !ok {
							return
						}
						if role {
							nm[ph] = tv
						} else {
							nm[ph] = fv
						}
					})
					return norm(newBigEnv(f, nm).bytesOf(p, inner).String())
				}
				ta, tb := roleForm(true), roleForm(false)
				desc = append(desc, "A:"+ta+"/B:"+tb)
				if ta != want[i-3] || tb != want[(i-3+2)%4] {
					okOrder = false
				}
				continue
			}
			tv, fv, ok := condPhi(phi, thisISA, canonB)
			desc = append(desc, "A:"+tv+"/B:"+fv)
			// initiator: own (rpri) first; responder: peer (rpub) first
			wt := want[i-3]
			wf := want[(i-3+2)%4]
			if !ok || tv != wt || fv != wf {
				okOrder = false
			}
		}
		c.Check(okOrder, "T-C13-order", fn, "h = H(xV||ZA||ZB||x1||y1||x2||y2), (x1,y1) = initiator's ephemeral", "", "inner hash input is ["+strings.Join(desc, ", ")+"]", inner.Pos())
		innerS := "call:sm3.Sm3Sum(" + be.bytesOf(inner, inner).String() + ")"
		for i, tag := range []string{"0x2", "0x3"} {
			got := be.bytesOf(ret.Results[1+i], ret).String()
			got = strings.ReplaceAll(got, innerS, "H")
			got = norm(got)
			wantS := "call:sm3.Sm3Sum(call:sm2.BytesCombine(lit(lit(" + tag + "),YV,H)))"
			c.Check(got == wantS, "T-C13-order", fn, "S"+string(rune('1'+i))+" = H("+tag+"||yV||h)", "", "confirmation value is "+got, ret.Pos())
		}
	}
	// ---- BytesCombine joins in order with an empty separator
	if bc := c.Fn("sm2", "BytesCombine"); bc != nil {
		j := findCall(bc, "Join")
		ok := false
		if j != nil && calleeID(&j.Call) == "bytes.Join" {
			sep := newBigEnv(bc, nil).bytesOf(j.Call.Args[1], j).String()
			ok = sep == "conv(const:\"\":string)" || strings.Contains(sep, "\"\"") || isNilConst(j.Call.Args[1]) || strings.HasPrefix(sep, "const:nil")
			// s[index] = pBytes[index]
			okCopy := false
			instrsOf(bc, func(_ *ssa.BasicBlock, in ssa.Instruction) {
				if st, isSt := in.(*ssa.Store); isSt {
					if ia, isIA := st.Addr.(*ssa.IndexAddr); isIA {
						if b2, i2, isLd := loadOfIndex(st.Val); isLd && b2 == ssa.Value(bc.Params[0]) && i2 == ia.Index {
							okCopy = true
						}
					}
				}
			})
			ok = ok && (okCopy || j.Call.Args[0] == ssa.Value(bc.Params[0]))
		}
		c.Check(ok, "T-C13-order", fname(bc), "concatenates its arguments in order", "", "BytesCombine is not bytes.Join(parts in order, empty separator)", bc.Pos())
	}
	c13XHat(c)
	st := bidx(c, "B-IDX", []*ssa.Function{f, c.Fn("sm2", "keXHat"), c.Fn("sm2", "BytesCombine"), c.Fn("sm2", "leftPad32"), c.Fn("sm2", "kdf")}, map[string]string{
		"B-IDX|sm2.kdf|index ?phi1[?phi2] #1": "the all-zero scan reads c[i], i<length, where len(c)==length follows from the block arithmetic checked by K-C02-kdf (loop invariant, not linear over one iteration; same exemption as under C02)"})
	_ = st
	c03IsOnCurve(c, "P-C03-formulas")
	fixedWidthHashed(c, "P-WIDTH-hash")
	n := hashReuse(c, "G-HASH-reuse", []string{"sm2"})
	c.Holds("G-HASH-reuse", "sm2", "no hash object is written to again after Sum without a Reset", fmt.Sprintf("%d Sum→Write pairs on locally created hash objects inspected", n), token.NoPos)
}

func c13XHat(c *Ctx) {
	f := c.Fn("sm2", "keXHat")
	if f == nil {
		c.Missing("K-C13-xhat", "sm2.keXHat", "function", "not found")
		return
	}
	fn := fname(f)
	be := newBigEnv(f, paramNames(f, "x"))
	sliceForm := false
	for _, b := range f.Blocks {
		ret, ok := b.Instrs[len(b.Instrs)-1].(*ssa.Return)
		if !ok {
			continue
		}
		got := be.valueAt(ret.Results[0], ret).String()
		two127 := "frombytes(lit(0x80,0x0,0x0,0x0,0x0,0x0,0x0,0x0,0x0,0x0,0x0,0x0,0x0,0x0,0x0,0x0))"
		want := "add(frombytes(bytes(x))," + two127 + ")"
		// the low 16 bytes taken by re-slicing (when there are at least 16) instead of zeroing the bytes before them
		low16 := "slice(bytes(x),sub(len(bytes(x)),0x10),_)"
		wantB1 := "add(frombytes(?phi(bytes(x)|" + low16 + "))," + two127 + ")"
		wantB2 := "add(frombytes(?phi(" + low16 + "|bytes(x)))," + two127 + ")"
		// 2^127 written as 1 << 127, and the sum written in either order
		got = strings.ReplaceAll(got, "big.Lsh(call:math/big.NewInt(0x1),0x7f)", two127)
		got = strings.ReplaceAll(got, "big.Lsh(0x1,0x7f)", two127)
		if strings.HasPrefix(got, "add("+two127+",") {
			got = "add(" + strings.TrimSuffix(strings.TrimPrefix(got, "add("+two127+","), ")") + "," + two127 + ")"
		}
		if got == wantB1 || got == wantB2 {
			sliceForm = true
		}
		c.Check(got == want || got == wantB1 || got == wantB2, "K-C13-xhat", fn, "x̄ = 2^127 + masked(x)", "", "keXHat returns "+got, ret.Pos())
	}
	// masking: buf[i] = 0 for i < len(buf)-16 ; buf[len-16] &= 0x7f when len >= 16
	zeroLoop, mask := false, false
	instrsOf(f, func(_ *ssa.BasicBlock, in ssa.Instruction) {
		st, ok := in.(*ssa.Store)
		if !ok {
			return
		}
		ia, ok := st.Addr.(*ssa.IndexAddr)
		if !ok {
			return
		}
		if k, ok := constInt(st.Val); ok && k == 0 {
			if phi, ok := ia.Index.(*ssa.Phi); ok {
				if ifi, ok := lastIf(phi.Block()); ok {
					s := be.plain(ifi.Cond, ifi).String()
					if iv, ok := inductionOf(phi); ok && iv.init == 0 && iv.step == 1 && strings.HasPrefix(s, "lt(") && strings.HasSuffix(s, ",sub(len(bytes(x)),0x10))") {
						zeroLoop = true
					}
				}
			}
		}
		if bo, ok := st.Val.(*ssa.BinOp); ok && bo.Op == token.AND {
			if k, ok := constInt(bo.Y); ok && k == 0x7f {
				idx := be.plain(ia.Index, st).String()
				conds := dominatingConds(be, st.Block())
				if idx == "sub(len(bytes(x)),0x10)" && conds["ge(len(bytes(x)),0x10)=true"] {
					mask = true
				}
				// byte 0 of x.Bytes()[len-16:], taken under the same `len >= 16` test
				if sl, isSl := ia.X.(*ssa.Slice); isSl && sliceForm && sl.Low != nil && sl.High == nil {
					k0, isK := constInt(ia.Index)
					if isK && k0 == 0 && be.plain(sl.Low, st).String() == "sub(len(bytes(x)),0x10)" && be.plain(sl.X, st).String() == "bytes(x)" && conds["ge(len(bytes(x)),0x10)=true"] && sl.Block().Dominates(st.Block()) {
						mask, zeroLoop = true, true
					}
				}
			}
		}
	})
	if !(zeroLoop && mask) {
		z2, m2 := c13XHatGeneral(f, be)
		zeroLoop, mask = zeroLoop || z2, mask || m2
	}
	c.Check(zeroLoop && mask, "K-C13-xhat", fn, "keeps the low 127 bits of x", "", "keXHat must clear everything above bit 126 of x (bytes before the last 16 and the top bit of byte len-16)", f.Pos())
}

// c13Inputs: the key exchange reads its long-term and ephemeral keys; it must not change them. big.Int arithmetic done
// "in place" on pri.D (t computed into the caller's private scalar) makes every later exchange with the same key use t
// as the private key: the first session agrees, every later one does not.
func c13Inputs(c *Ctx) {
	noPointerParamWrites(c, "FX-C13-inputs", "sm2", []string{"keyExchange", "KeyExchangeA", "KeyExchangeB"}, "a key object changed by one exchange gives different results in the next")
}

// noPointerParamWrites: nothing reachable from a pointer parameter of the named functions is written (key objects, their
// big.Int fields: `priv.D.Add(priv.D, one)` computes d+1 into the caller's private key)
func noPointerParamWrites(c *Ctx, rule, pkg string, names []string, consequence string) {
	fx := getFX(c)
	for _, n := range names {
		f := c.Fn(pkg, n)
		if f == nil {
			c.Missing(rule, pkg+"."+n, "function", "not found")
			continue
		}
		w := fx.Writes(f)
		for i, p := range f.Params {
			if _, isPtr := p.Type().Underlying().(*types.Pointer); !isPtr {
				continue
			}
			var wit witness
			var at root
			bad := false
			for r, wv := range w {
				if r.Kind == rkParam && r.Idx == i {
					bad, wit, at = true, wv, r
				}
			}
			c.Check(!bad, rule, fname(f), "does not modify "+pname(p), "", "memory reachable from the caller's "+pname(p)+" is written: "+fx.describe(at, wit)+" — "+consequence, wit.Pos)
		}
	}
}

// c13XHatGeneral: the two clearing steps of keXHat in any loop direction and guard spelling. With N = len(x.Bytes()):
// (zero) a counted loop stores 0 at positions running exactly over 0 .. N-17; (mask) byte N-16 is and-ed with 0x7f in a
// block that is unreachable for N <= 15 and lies on every path to a return for N >= 16 (decided on values, with the
// interval evaluator over N and over N-16).
func c13XHatGeneral(f *ssa.Function, be *bigEnv) (zero, mask bool) {
	sym := func(name string) linForm { return linForm{coef: map[string]int64{name: 1}} }
	var lf func(v ssa.Value, depth int) (linForm, bool)
	lf = func(v ssa.Value, depth int) (linForm, bool) {
		if depth > 8 {
			return linForm{}, false
		}
		if k, ok := constInt(v); ok {
			return linForm{k: k, coef: map[string]int64{}}, true
		}
		switch x := v.(type) {
		case *ssa.Convert:
			return lf(x.X, depth+1)
		case *ssa.BinOp:
			if x.Op == token.ADD || x.Op == token.SUB {
				a, ok1 := lf(x.X, depth+1)
				b, ok2 := lf(x.Y, depth+1)
				if ok1 && ok2 {
					if x.Op == token.ADD {
						return a.add(b, 1), true
					}
					return a.add(b, -1), true
				}
			}
		case *ssa.Call:
			if bi, ok := x.Call.Value.(*ssa.Builtin); ok && bi.Name() == "len" && be.plain(x.Call.Args[0], x).String() == "bytes(x)" {
				return sym("N"), true
			}
		}
		return linForm{}, false
	}
	one := linForm{k: 1, coef: map[string]int64{}}
	isBuf := func(v ssa.Value, at ssa.Instruction) bool { return be.plain(v, at).String() == "bytes(x)" }
	instrsOf(f, func(_ *ssa.BasicBlock, in ssa.Instruction) {
		st, ok := in.(*ssa.Store)
		if !ok {
			return
		}
		ia, ok := st.Addr.(*ssa.IndexAddr)
		if !ok || !isBuf(ia.X, st) {
			return
		}
		if k, isK := constInt(st.Val); isK && k == 0 {
			p, isPhi := ia.Index.(*ssa.Phi)
			if !isPhi || len(p.Edges) != 2 || !isLoopHeader(p.Block()) {
				return
			}
			h := p.Block()
			var init ssa.Value
			step := int64(0)
			for i, e := range p.Edges {
				a := affineOf(e)
				if h.Dominates(h.Preds[i]) && len(a.coef) == 1 && a.coef[p] == 1 && (a.k == 1 || a.k == -1) {
					step = a.k
				} else if !h.Dominates(h.Preds[i]) {
					init = e
				}
			}
			ifi, okIf := lastIf(h)
			if init == nil || step == 0 || !okIf || !h.Succs[0].Dominates(st.Block()) {
				return
			}
			cmp, okC := ifi.Cond.(*ssa.BinOp)
			if !okC {
				return
			}
			op, boundV := cmp.Op, cmp.Y
			shiftK := int64(0) // the test may be on i+k: `i+16 < len(buf)`
			if ta := affineOf(cmp.X); len(ta.coef) == 1 && ta.coef[p] == 1 {
				shiftK = ta.k
			} else {
				tb := affineOf(cmp.Y)
				if len(tb.coef) != 1 || tb.coef[p] != 1 {
					return
				}
				shiftK = tb.k
				boundV = cmp.X
				switch op {
				case token.LSS:
					op = token.GTR
				case token.LEQ:
					op = token.GEQ
				case token.GTR:
					op = token.LSS
				case token.GEQ:
					op = token.LEQ
				}
			}
			first, ok1 := lf(init, 0)
			bound, ok2 := lf(boundV, 0)
			if !ok1 || !ok2 {
				return
			}
			bound = bound.add(linForm{k: shiftK, coef: map[string]int64{}}, -1)
			var last linForm
			switch {
			case step == 1 && op == token.LSS:
				last = bound.add(one, -1)
			case step == 1 && op == token.LEQ:
				last = bound
			case step == -1 && op == token.GTR:
				last = bound.add(one, 1)
			case step == -1 && op == token.GEQ:
				last = bound
			default:
				return
			}
			lo := linForm{coef: map[string]int64{}}
			hi := sym("N").add(linForm{k: 17, coef: map[string]int64{}}, -1)
			if (first.equal(lo) && last.equal(hi)) || (first.equal(hi) && last.equal(lo)) {
				zero = true
			}
			return
		}
		bo, ok := st.Val.(*ssa.BinOp)
		if !ok || (bo.Op != token.AND && bo.Op != token.AND_NOT) {
			return
		}
		// b & 0x7f, or b &^ 0x80
		if k, isK := constInt(bo.Y); !isK || (bo.Op == token.AND && k != 0x7f) || (bo.Op == token.AND_NOT && k != 0x80) {
			return
		}
		ld, isLd := bo.X.(*ssa.UnOp)
		if !isLd {
			return
		}
		ia2, isIA := ld.X.(*ssa.IndexAddr)
		if !isIA || ia2.X != ia.X {
			return
		}
		i1, ok1 := lf(ia.Index, 0)
		i2, ok2 := lf(ia2.Index, 0)
		want := sym("N").add(linForm{k: 16, coef: map[string]int64{}}, -1)
		if !ok1 || !ok2 || !i1.equal(want) || !i2.equal(want) {
			return
		}
		ci := newCondIndex(f, paramNames(f, "x"))
		under := func(lo, hi int64, fn func()) {
			lo2, hi2 := lo-16, hi-16
			if hi < lo {
				hi2 = lo2 - 1
			}
			ci.withInterval("len(bytes(x))", lo, hi, func() {
				ci.withInterval("sub(len(bytes(x)),0x10)", lo2, hi2, fn)
			})
		}
		shortReach, longBypass := true, true
		under(0, 15, func() {
			shortReach = reach([]*ssa.BasicBlock{f.Blocks[0]}, deadEdges(f))[st.Block()]
		})
		under(16, 15, func() {
			cut := deadEdges(f)
			for _, pr := range st.Block().Preds {
				cut[edge{pr, st.Block()}] = true
			}
			longBypass = false
			for b := range reach([]*ssa.BasicBlock{f.Blocks[0]}, cut) {
				if _, isRet := b.Instrs[len(b.Instrs)-1].(*ssa.Return); isRet {
					longBypass = true
				}
			}
		})
		if !shortReach && !longBypass {
			mask = true
		}
	})
	return zero, mask
}
