package main

// B-LOOP — every loop and every recursive call in the decoder closure has a ranking argument.
//
// A loop (header h) terminates when one of the following is established:
//   range:    h iterates a map, string or channel-free range (ssa.Next), or an index range over a length
//             computed before the loop;
//   measure:  some loop-header variable m (an integer phi, or the length of a slice/string phi) satisfies, on
//             every back edge, either  next >= m+1  and  m <= B   or   next <= m-1  and  m >= B,
//             with B loop-invariant (B = 0 for lengths). Both inequalities are proved by LinBounds from the
//             conditions that dominate the back edge, the definitions of the values and the library contracts
//             (asn1.Unmarshal / pem.Decode return a strictly shorter rest on success).
// A recursive call terminates when an integer argument strictly increases towards the length of a slice that is
// passed on unchanged (or a slice argument strictly shrinks).

import (
	"fmt"
	"go/token"
	"go/types"
	"strings"

	"golang.org/x/tools/go/ssa"
)

func loopBlocks(h *ssa.BasicBlock) map[*ssa.BasicBlock]bool {
	in := map[*ssa.BasicBlock]bool{h: true}
	var stack []*ssa.BasicBlock
	for _, p := range h.Preds {
		if h.Dominates(p) && !in[p] {
			in[p] = true
			stack = append(stack, p)
		}
	}
	for len(stack) > 0 {
		b := stack[len(stack)-1]
		stack = stack[:len(stack)-1]
		for _, p := range b.Preds {
			if !in[p] && h.Dominates(p) {
				in[p] = true
				stack = append(stack, p)
			}
		}
	}
	return in
}

// invariantIn: every variable of l is defined outside the loop
func invariantIn(l lin, blocks map[*ssa.BasicBlock]bool) bool {
	for v := range l.c {
		if in, ok := v.v.(ssa.Instruction); ok && in.Block() != nil && blocks[in.Block()] {
			return false
		}
	}
	return true
}

type loopVerdict struct {
	ok  bool
	how string
}

func (lb *LB) loopTerminates(h *ssa.BasicBlock) loopVerdict {
	blocks := loopBlocks(h)
	// range over map / string: the iterator is finite
	for b := range blocks {
		for _, in := range b.Instrs {
			if nx, ok := in.(*ssa.Next); ok {
				if rg, ok := nx.Iter.(*ssa.Range); ok {
					switch rg.X.Type().Underlying().(type) {
					case *types.Map:
						return loopVerdict{true, "range over a map"}
					case *types.Basic:
						return loopVerdict{true, "range over a string"}
					}
				}
			}
		}
	}
	var backPreds []*ssa.BasicBlock
	for _, p := range h.Preds {
		if h.Dominates(p) {
			backPreds = append(backPreds, p)
		}
	}
	// candidate bounds: operands of comparisons inside the loop
	var cands []lin
	cands = append(cands, linConst(0))
	for b := range blocks {
		ifi, ok := lastIf(b)
		if !ok {
			continue
		}
		bo, ok := ifi.Cond.(*ssa.BinOp)
		if !ok {
			continue
		}
		switch bo.Op {
		case token.LSS, token.LEQ, token.GTR, token.GEQ, token.NEQ, token.EQL:
			if _, _, isInt := intKind(bo.X.Type()); isInt {
				for _, side := range []ssa.Value{bo.X, bo.Y} {
					l := lb.linOf(side)
					if invariantIn(l, blocks) {
						cands = append(cands, l, l.addScaled(linConst(1), -1), l.addScaled(linConst(1), 1))
					}
				}
			}
		}
	}
	for _, prm := range h.Parent().Params {
		if _, isSl := prm.Type().Underlying().(*types.Slice); isSl {
			l := linVar(lvar{1, prm})
			cands = append(cands, l, l.addScaled(linConst(1), -1))
		}
	}
	why := "no loop-header variable with a proven strict progress towards a loop-invariant bound"
	// a cheap pass first (one level of case splits), the full search only when that finds nothing
	for _, searchDepth := range []int{3, 1} {
		for _, phi := range phisOf(h) {
			var m lin
			isLen := false
			if _, _, isInt := intKind(phi.Type()); isInt {
				m = linVar(lvar{0, phi})
			} else {
				switch t := phi.Type().Underlying().(type) {
				case *types.Slice:
					m, isLen = linVar(lvar{1, phi}), true
				case *types.Basic:
					if t.Info()&types.IsString == 0 {
						continue
					}
					m, isLen = linVar(lvar{1, phi}), true
				default:
					continue
				}
			}
			next := func(i int) lin {
				if isLen {
					return lb.lenLin(phi.Edges[i])
				}
				return lb.linOf(phi.Edges[i])
			}
			proveOnBack := func(mk func(i int) []cons) bool {
				for i, p := range h.Preds {
					if !h.Dominates(p) {
						continue
					}
					saved := lb.curBlock
					lb.curBlock = p
					facts := append(lb.edgeFacts(p, h), lb.extra...)
					// a header that tests a boolean loop variable (`for more := true; more; more = rest != nil`):
					// only iterations that pass the test again matter for termination, and on those the value the
					// variable takes over this back edge holds (or fails, if the true branch leaves the loop)
					if ifi, okIf := lastIf(h); okIf {
						if bp, isPhi := ifi.Cond.(*ssa.Phi); isPhi && bp.Block() == h && i < len(bp.Edges) {
							stay := blocks[h.Succs[0]]
							facts = append(facts, lb.condFacts(bp.Edges[i], stay)...)
						}
					}
					ok := lb.proveWith(mk(i), facts, map[lvar]lin{}, searchDepth)
					lb.curBlock = saved
					if !ok {
						return false
					}
				}
				return true
			}
			if lbDump && strings.Contains(fname(lb.f), lbDumpFn) {
				for i, p := range h.Preds {
					if h.Dominates(p) {
						dbg("loop %s phi %s back edge %d facts:", fname(lb.f), phi.Comment, i)
						for _, c := range lb.closure(append(lb.edgeFacts(p, h), lb.extra...), map[lvar]lin{}) {
							dbg("    %s <= 0 (ne=%v)", linString(c.l), c.ne)
						}
					}
				}
			}
			if lbDump && strings.Contains(fname(lb.f), lbDumpFn) {
				for i, p := range h.Preds {
					if h.Dominates(p) {
						dbg("  m=%s next[%d]=%s", linString(m), i, linString(next(i)))
					}
				}
			}
			// decreasing
			if proveOnBack(func(i int) []cons { return []cons{le(next(i), m.addScaled(linConst(1), -1))} }) {
				if isLen {
					return loopVerdict{true, "len(" + phi.Comment + ") strictly decreases on every back edge"}
				}
				for _, B := range cands {
					B := B
					if proveOnBack(func(i int) []cons { return []cons{ge(m, B)} }) {
						return loopVerdict{true, phi.Comment + " strictly decreases and stays above a loop-invariant bound"}
					}
				}
				why = phi.Comment + " decreases but no loop-invariant lower bound was proven"
			}
			// increasing
			if proveOnBack(func(i int) []cons { return []cons{ge(next(i), m.addScaled(linConst(1), 1))} }) {
				for _, B := range cands {
					B := B
					if proveOnBack(func(i int) []cons { return []cons{le(m, B)} }) {
						return loopVerdict{true, phi.Comment + " strictly increases and stays below a loop-invariant bound"}
					}
				}
				why = phi.Comment + " increases but no loop-invariant upper bound was proven"
			}
		}
	}
	// memory measure: the loop variable lives in a struct field (its address escaped earlier, e.g. to
	// asn1.Unmarshal): `for len(s.f) > n { ...; s.f = s.f[1:] }`
	if v := lb.memoryMeasure(h, blocks, backPreds); v.ok {
		return v
	}
	return loopVerdict{false, why}
}

// memoryMeasure: a slice-typed field of a local or parameter object is assigned exactly once per iteration, from
// a strictly shorter slice of the value it had at the start of the iteration, and nothing else in the loop can
// write it.
func (lb *LB) memoryMeasure(h *ssa.BasicBlock, blocks map[*ssa.BasicBlock]bool, backPreds []*ssa.BasicBlock) loopVerdict {
	type loc struct {
		base  ssa.Value
		field int
	}
	stores := map[loc][]*ssa.Store{}
	for b := range blocks {
		for _, in := range b.Instrs {
			st, ok := in.(*ssa.Store)
			if !ok {
				continue
			}
			fa, ok := st.Addr.(*ssa.FieldAddr)
			if !ok {
				continue
			}
			switch fa.X.(type) {
			case *ssa.Alloc, *ssa.Parameter:
			default:
				continue
			}
			if _, isSl := st.Val.Type().Underlying().(*types.Slice); !isSl {
				continue
			}
			stores[loc{fa.X, fa.Field}] = append(stores[loc{fa.X, fa.Field}], st)
		}
	}
	for l, sts := range stores {
		if len(sts) != 1 {
			continue
		}
		S := sts[0]
		// no other writer of the object inside the loop
		clean := true
		for b := range blocks {
			for _, in := range b.Instrs {
				switch x := in.(type) {
				case ssa.CallInstruction:
					for _, a := range x.Common().Args {
						if a == l.base {
							clean = false
						}
						if mi, ok := a.(*ssa.MakeInterface); ok && mi.X == l.base {
							clean = false
						}
						if fa, ok := a.(*ssa.FieldAddr); ok && fa.X == l.base {
							clean = false
						}
					}
				case *ssa.Store:
					if x != S {
						if x.Addr == l.base {
							clean = false
						}
						if fa, ok := x.Addr.(*ssa.FieldAddr); ok && fa.X.Type() == l.base.Type() && fa.Field == l.field && fa.X != l.base {
							clean = false
						}
					}
				}
			}
		}
		if !clean {
			continue
		}
		// S executes on every iteration
		every := true
		for _, p := range backPreds {
			if !(S.Block() == p || S.Block().Dominates(p)) {
				every = false
			}
		}
		if !every {
			continue
		}
		// the stored value is a slice of a load of the same field made earlier in the same iteration
		sl, ok := S.Val.(*ssa.Slice)
		if !ok {
			continue
		}
		ld, ok := sl.X.(*ssa.UnOp)
		if !ok || ld.Op != token.MUL {
			continue
		}
		fa, ok := ld.X.(*ssa.FieldAddr)
		if !ok || fa.X != l.base || fa.Field != l.field || !blocks[ld.Block()] || !instrDominates(ld, S) {
			continue
		}
		if lb.prove([]cons{le(lb.lenLin(S.Val), linVar(lvar{1, lenBase(ld)}).addScaled(linConst(1), -1))}, S.Block(), nil, map[lvar]lin{}, 0) {
			return loopVerdict{true, "the slice field " + fieldName(l.base.Type(), l.field) + " is replaced by a strictly shorter slice of itself on every iteration and has no other writer in the loop"}
		}
	}
	return loopVerdict{false, ""}
}

func c18Loops(c *Ctx, scope []*ssa.Function, exempt map[string]string) {
	nLoops := 0
	inScope := map[*ssa.Function]bool{}
	for _, f := range scope {
		inScope[f] = true
	}
	for _, f := range scope {
		hs := loopHeaders(f)
		lb := &LB{p: c.P, f: f, UsedContracts: map[string]bool{}, ovf: lbOvfMode}
		cfacts, _ := callerFacts(c.P, f)
		lb.extra = cfacts
		for i, h := range hs {
			nLoops++
			c.Evals++
			pos := token.NoPos
			for _, in := range h.Instrs {
				if in.Pos().IsValid() {
					pos = in.Pos()
					break
				}
			}
			if !pos.IsValid() {
				if ifi, ok := lastIf(h); ok {
					pos = ifi.Cond.Pos()
				}
			}
			construct := fmt.Sprintf("loop #%d terminates", i+1)
			v := lb.loopTerminates(h)
			key := "B-LOOP|" + fname(f) + "|" + construct
			switch {
			case v.ok:
				c.Holds("B-LOOP", fname(f), construct, v.how, pos)
			case exempt[key] != "":
				c.Notes = append(c.Notes, "exempt "+key+": "+exempt[key])
			default:
				c.Violated("B-LOOP", fname(f), construct, "no ranking argument found: "+v.how, pos)
			}
		}
		// recursion: direct self-calls
		k := 0
		for _, ci := range allCalls(f) {
			call, ok := ci.(*ssa.Call)
			if !ok || call.Call.StaticCallee() != f {
				continue
			}
			k++
			c.Evals++
			construct := fmt.Sprintf("recursive call #%d makes progress", k)
			lbSite = true
			ok2, how := lb.recursionProgress(f, call)
			lbSite = false
			key := "B-LOOP|" + fname(f) + "|" + construct
			switch {
			case ok2:
				c.Holds("B-LOOP", fname(f), construct, how, call.Pos())
			case exempt[key] != "":
				c.Notes = append(c.Notes, "exempt "+key+": "+exempt[key])
			default:
				c.Violated("B-LOOP", fname(f), construct, "no ranking argument for the recursion: "+how, call.Pos())
			}
		}
	}
	// mutual / dynamic recursion: cycles in the VTA call graph restricted to the closure, other than self loops handled above
	cg := c.P.VTA()
	index := map[*ssa.Function]int{}
	low := map[*ssa.Function]int{}
	on := map[*ssa.Function]bool{}
	var stack []*ssa.Function
	idx := 0
	var sccs [][]*ssa.Function
	var strong func(v *ssa.Function)
	succs := func(v *ssa.Function) []*ssa.Function {
		var out []*ssa.Function
		seen := map[*ssa.Function]bool{}
		add := func(g *ssa.Function) {
			if g != nil && inScope[g] && !seen[g] {
				seen[g] = true
				out = append(out, g)
			}
		}
		for _, ci := range allCalls(v) {
			add(ci.Common().StaticCallee())
		}
		if n := cg.Nodes[v]; n != nil {
			for _, e := range n.Out {
				add(e.Callee.Func)
			}
		}
		return out
	}
	strong = func(v *ssa.Function) {
		idx++
		index[v], low[v] = idx, idx
		stack = append(stack, v)
		on[v] = true
		for _, w := range succs(v) {
			if index[w] == 0 {
				strong(w)
				if low[w] < low[v] {
					low[v] = low[w]
				}
			} else if on[w] && index[w] < low[v] {
				low[v] = index[w]
			}
		}
		if low[v] == index[v] {
			var comp []*ssa.Function
			for {
				w := stack[len(stack)-1]
				stack = stack[:len(stack)-1]
				on[w] = false
				comp = append(comp, w)
				if w == v {
					break
				}
			}
			if len(comp) > 1 {
				sccs = append(sccs, comp)
			}
		}
	}
	for _, f := range scope {
		if index[f] == 0 {
			strong(f)
		}
	}
	// recursion through an interface or function value (not a static self call)
	for _, f := range scope {
		n := cg.Nodes[f]
		if n == nil {
			continue
		}
		dyn := false
		for _, e := range n.Out {
			if e.Callee.Func == f && e.Site != nil && e.Site.Common().StaticCallee() != f {
				dyn = true
			}
		}
		if !dyn {
			continue
		}
		key := "B-LOOP|" + fname(f) + "|recursion through a dynamic call"
		if exempt[key] != "" {
			c.Notes = append(c.Notes, "exempt "+key+": "+exempt[key])
			continue
		}
		c.Violated("B-LOOP", fname(f), "recursion through a dynamic call", "the function can call itself through an interface or function value and no ranking argument is recognised", f.Pos())
	}
	for _, comp := range sccs {
		names := ""
		for _, g := range comp {
			names += fname(g) + " "
		}
		key := "B-LOOP|" + fname(comp[len(comp)-1]) + "|mutual recursion"
		if exempt[key] != "" {
			c.Notes = append(c.Notes, "exempt "+key+": "+exempt[key])
			continue
		}
		c.Violated("B-LOOP", fname(comp[len(comp)-1]), "mutual recursion", "functions call each other in a cycle without a recognised ranking argument: "+names, comp[len(comp)-1].Pos())
	}
	c.Notes = append(c.Notes, fmt.Sprintf("B-LOOP: %d loops", nLoops))
	if nLoops < 40 {
		c.Undecided("B-LOOP", "decoder closure", "loop count", fmt.Sprintf("only %d loops found (expected at least 40)", nLoops), token.NoPos)
	}
}

// recursionProgress: at the recursive call, an integer argument exceeds the corresponding parameter by at least one
// and is bounded by the length of a slice parameter that is passed on unchanged; or a slice argument is strictly
// shorter than the corresponding parameter.
func (lb *LB) recursionProgress(f *ssa.Function, call *ssa.Call) (bool, string) {
	args := call.Call.Args
	b := call.Block()
	for k, prm := range f.Params {
		if k >= len(args) {
			break
		}
		if _, _, isInt := intKind(prm.Type()); isInt {
			a, p := lb.linOf(args[k]), linVar(lvar{0, prm})
			dbg("recursionProgress %s: arg %s param %s", fname(f), linString(a), linString(p))
			if lb.prove([]cons{ge(a, p.addScaled(linConst(1), 1))}, b, nil, map[lvar]lin{}, 0) {
				for j, q := range f.Params {
					if j >= len(args) || args[j] != ssa.Value(q) {
						continue
					}
					if _, isSl := q.Type().Underlying().(*types.Slice); !isSl {
						continue
					}
					if lb.prove([]cons{le(a, linVar(lvar{1, q}))}, b, nil, map[lvar]lin{}, 0) {
						return true, fmt.Sprintf("%s strictly increases and stays within len(%s), which is passed on unchanged", prm.Name(), q.Name())
					}
					// an activation that recurses at all has its own parameter below len: the chain of
					// activations has strictly increasing values below a fixed bound
					if lb.prove([]cons{le(p, linVar(lvar{1, q}).addScaled(linConst(1), -1))}, b, nil, map[lvar]lin{}, 0) {
						return true, fmt.Sprintf("%s strictly increases from one activation to the next, and an activation reaches this call only with %s < len(%s), which is passed on unchanged", prm.Name(), prm.Name(), q.Name())
					}
				}
			}
			if lb.prove([]cons{le(a, p.addScaled(linConst(1), -1)), ge(a, linConst(0))}, b, nil, map[lvar]lin{}, 0) {
				return true, prm.Name() + " strictly decreases and stays non-negative"
			}
			continue
		}
		if _, isSl := prm.Type().Underlying().(*types.Slice); isSl {
			if lb.prove([]cons{le(lb.lenLin(args[k]), linVar(lvar{1, prm}).addScaled(linConst(1), -1))}, b, nil, map[lvar]lin{}, 0) {
				return true, "len(" + prm.Name() + ") strictly decreases"
			}
		}
	}
	return false, "no argument with proven strict progress"
}

// checkIntContracts: guarantee side of repoIntContracts — every return of the function that does not carry a
// non-nil error satisfies the contract facts (with the contract assumed for the calls inside, which is sound by
// induction on the depth of the call tree).
func checkIntContracts(c *Ctx) {
	for name, ct := range repoIntContracts {
		i := 0
		for i < len(name) && name[i] != '.' {
			i++
		}
		f := c.Fn(name[:i], name[i+1:])
		if f == nil {
			c.Missing("B-CONTRACT", name, "function", "not found")
			continue
		}
		lb := &LB{p: c.P, f: f, UsedContracts: map[string]bool{}, ovf: lbOvfMode}
		n := 0
		for _, b := range f.Blocks {
			ret, ok := b.Instrs[len(b.Instrs)-1].(*ssa.Return)
			if !ok || failingReturn(ret) {
				continue
			}
			n++
			c.Evals++
			goals := ct.facts(lb, func(i int) ssa.Value { return f.Params[i] }, func(i int) lin { return lb.linOf(ret.Results[i]) })
			lbSite = true
			ok2 := lb.prove(goals, b, nil, map[lvar]lin{}, 0)
			lbSite = false
			c.Check(ok2, "B-CONTRACT", fname(f), fmt.Sprintf("succeeding return #%d satisfies: %s", n, ct.desc), "proved by LinBounds (contract assumed for inner calls)", "a succeeding return does not establish the contract that callers and the termination argument rely on", ret.Pos())
		}
		if n == 0 {
			c.Undecided("B-CONTRACT", fname(f), "succeeding returns", "none found", f.Pos())
		}
	}
}
