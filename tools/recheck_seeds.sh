#!/bin/bash
# Re-runs the checks of every stored seed against /repo with the seed's patch applied (and reverted straight after) and
# refreshes "check_result" in its meta.json. Usage: recheck_seeds.sh [name-prefix]
export GOFLAGS=-mod=mod GOPROXY=off GOSUMDB=off GOTOOLCHAIN=local
cd /verif/seeded || exit 2
for d in ${1:-}*/; do
  d=${d%/}
  props=$(python3 -c "import json;print(' '.join(json.load(open('$d/meta.json'))['properties_checked']))")
  if ! git -C /repo apply --check /verif/seeded/$d/patch.diff 2>/dev/null; then echo "$d: patch no longer applies"; continue; fi
  git -C /repo apply /verif/seeded/$d/patch.diff
  res=""
  for p in $props; do
    mkdir -p /tmp/rs.$$; cp /verif/known_findings.txt /tmp/rs.$$/
    n=$(/verif/bin/gmsmcheck -property $p -verif /tmp/rs.$$ 2>&1 | grep -c '^VIOLATION')
    res="$res $p:$n"
  done
  git -C /repo checkout -- .
  rm -rf /tmp/rs.$$
  python3 - "$d" "$res" <<'PY'
import json,sys
d,res=sys.argv[1],sys.argv[2].strip()
p=d+'/meta.json'
m=json.load(open(p)); m['check_result']=res
json.dump(m,open(p,'w'),indent=1,ensure_ascii=False)
PY
  echo "$d:$res"
done
