#!/usr/bin/env python3
"""Regenerates /verif/MANIFEST.json from the per-property table below."""
import json, os
ENV = "GOFLAGS=-mod=mod GOPROXY=off GOSUMDB=off GOTOOLCHAIN=local"
SETUP = f"cd /verif/checker && {ENV} go build -o /verif/bin/gmsmcheck ."

# id -> (technique, level text, level note, design ref) ; only properties with built rules
CLAIMED = json.load(open(os.path.join(os.path.dirname(__file__), "claims.json")))
ALL = [f"C{n:02d}" for n in range(1, 21)]

checks = []
for pid in ALL:
    if pid not in CLAIMED:
        continue
    c = CLAIMED[pid]
    checks.append({
        "property_id": pid,
        "quick_cmd": f"/verif/bin/gmsmcheck -property {pid} -tier quick",
        "thorough_cmd": f"/verif/bin/gmsmcheck -property {pid} -tier thorough",
        "evidence_file": f"/verif/evidence/{pid}.json",
        "replay_cmd_template": f"/verif/bin/gmsmcheck -property {pid} -tier quick -list -replay {{path}}",
        "engine": "gmsmcheck",
        "level_claimed": {"category": "other", "text": c["level"], "design_ref": c.get("design_ref", "DESIGN.md §5 " + pid)},
        "level_note": c["note"],
        "technique": c["technique"],
    })
na = []
NA = json.load(open(os.path.join(os.path.dirname(__file__), "not_applicable.json")))
for pid in ALL:
    if pid not in CLAIMED:
        na.append({"property_id": pid, "reason": NA.get(pid, "static rules for this property are not built yet in this round; nothing is claimed")})
m = {
    "version": 1,
    "setup_cmd": SETUP,
    "hooks": {"guard": "verif", "enable": "none needed: static analysis reads /repo's sources; no instrumentation is compiled into gmsm",
              "baseline_off_cmd": "cd /repo && GOFLAGS=-mod=mod go test -vet=off -count=1 -timeout 25m ./...",
              "source_commits": [], "add_only": True},
    "engines": [{"name": "gmsmcheck", "path": "/verif/checker", "serves_properties": [c["property_id"] for c in checks],
                 "kind_free_text": "repository-specific static analyser on go/packages + go/types + go/ssa (x/tools v0.29.0): constant-table conformance, write-effect summaries, guard / must-pass-through on the SSA CFG, bounds (compiler prove pass + linear prover), table/sibling agreement, shared-state rules"}],
    "checks": checks,
    "not_applicable": na,
    "notes": "All checks are static: they load /repo's current working tree on every run and never execute gmsm code. Every property is claimed at level 'other': the check decides the structural necessary conditions listed in its evidence file (coverage.explanation) and in DESIGN.md §5, not the behavioural property as a whole. Genuine defects found are either repaired by 'fix:' commits in /repo or listed in /verif/known_findings.txt.",
}
json.dump(m, open("/verif/MANIFEST.json", "w"), indent=1)
print("claimed", [c["property_id"] for c in checks], "na", len(na))
