#!/bin/bash
# usage: refactortest.sh <id> <worktree>   — for every _seed/rN.patch of the worktree: copy /repo to a scratch
# directory, apply the patch, build, run ALL property checks against the copy and report violations (= false
# alarms, if the refactoring really is behaviour-preserving). Stores the patch and the outcome under
# /verif/refactors/<id>-rN/.
export GOFLAGS=-mod=mod GOPROXY=off GOSUMDB=off GOTOOLCHAIN=local
id=$1; wt=$2
for pf in $wt/_seed/r*.patch; do
  [ -s "$pf" ] || continue
  n=$(basename $pf .patch)
  out=/verif/refactors/${PFX:-}$id-$n; mkdir -p $out; cp $pf $out/patch.diff
  python3 - "$wt/_seed/refactors.json" "$n.patch" "$out/meta.json" <<'PY'
import json,sys
try:
    l=json.load(open(sys.argv[1])); m=[x for x in l if x.get('patch')==sys.argv[2]]
    m=m[0] if m else {}
except Exception as e: m={'error':str(e)}
json.dump(m,open(sys.argv[3],'w'),indent=1,ensure_ascii=False)
PY
  S=$(mktemp -d /tmp/rft.XXXXXX)
  mkdir -p $S/repo && git -C /repo archive HEAD | tar -x -C $S/repo
  mkdir -p $S/verif/evidence; cp /verif/known_findings.txt $S/verif/
  if ! (cd $S/repo && git init -q 2>/dev/null; git -C $S/repo apply $out/patch.diff 2>/dev/null || patch -s -p1 -d $S/repo < $out/patch.diff); then echo "$id-$n: PATCH DOES NOT APPLY"; rm -rf $S; continue; fi
  if ! (cd $S/repo && go build ./... >/dev/null 2>&1); then echo "$id-$n: DOES NOT BUILD"; rm -rf $S; continue; fi
  res=""
  for p in C01 C02 C03 C04 C05 C06 C07 C08 C09 C10 C11 C12 C13 C14 C15 C16 C17 C18 C19 C20; do
    o=$(/verif/bin/gmsmcheck -repo $S/repo -verif $S/verif -property $p 2>&1)
    k=$(echo "$o" | grep -c '^VIOLATION')
    if [ "$k" != "0" ]; then res="$res $p:$k"; echo "$o" | grep -E "\[(violated|undecided|anchor-missing)\]" | cut -c1-400 | sed "s#$S/repo/##g" > $out/$p.alarms.txt; fi
  done
  echo "$id-$n: ${res:- clean}"
  echo "${res:- clean}" > $out/result.txt
  rm -rf $S
done
