#!/bin/bash
# Runs the repository's test suite and checks that all 35 baseline tests pass.
export GOFLAGS=-mod=mod GOPROXY=off GOSUMDB=off GOTOOLCHAIN=local
cd ${1:-/repo} && go test -json -vet=off -count=1 -timeout 25m ./... 2>/dev/null > /tmp/baseline.$$.json
python3 - /tmp/baseline.$$.json <<'PY'
import json,sys
want=set(json.load(open('/root/.vp/BASELINE.json'))['stable_pass'])
got=set()
for l in open(sys.argv[1]):
    try: e=json.loads(l)
    except: continue
    if e.get('Action')=='pass' and e.get('Test'):
        got.add(e['Package']+'::'+e['Test'])
miss=want-got
print('baseline pass %d/%d'%(len(want&got),len(want)))
for m in sorted(miss): print('MISSING',m)
sys.exit(1 if miss else 0)
PY
rc=$?; rm -f /tmp/baseline.$$.json; exit $rc
