#!/bin/bash
# Runs the repository's test suite and checks that all 35 baseline tests pass.
export GOFLAGS=-mod=mod GOPROXY=off GOSUMDB=off GOTOOLCHAIN=local
# the gmtls tests bind fixed ports: run in a private network namespace when possible so that concurrent runs do not collide
cd ${1:-/repo} || exit 2
if unshare -rn true 2>/dev/null; then
  unshare -rn sh -c 'ip link set lo up; exec go test -json -vet=off -count=1 -timeout 25m ./...' 2>/dev/null > /tmp/baseline.$$.json
else
  go test -json -vet=off -count=1 -timeout 25m ./... 2>/dev/null > /tmp/baseline.$$.json
fi
python3 - /tmp/baseline.$$.json <<'PY'
import json,sys
want=set(json.load(open('/root/.vp/BASELINE.json'))['stable_pass'])
got=set()
for l in open(sys.argv[1]):
    try: e=json.loads(l)
    except: continue
    if e.get('Action')=='pass' and e.get('Test'):
        got.add(e['Package']+'::'+e['Test'])
miss=want-got
print('baseline pass %d/%d'%(len(want&got),len(want)))
for m in sorted(miss): print('MISSING',m)
sys.exit(1 if miss else 0)
PY
rc=$?; rm -f /tmp/baseline.$$.json
# the pkcs12 tests leave this untracked file behind: never let it slip into a commit
git -C ${1:-/repo} ls-files --error-unmatch pkcs12/test.p12 >/dev/null 2>&1 || rm -f ${1:-/repo}/pkcs12/test.p12
exit $rc
