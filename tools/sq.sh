#!/bin/bash
# usage: sq.sh <worktree|patchfile> <binary> props...  — apply the worktree's uncommitted diff (or a patch file) to a scratch copy
# of /repo and run the given checks with the given checker binary
export GOFLAGS=-mod=mod GOPROXY=off GOSUMDB=off GOTOOLCHAIN=local
src=$1; bin=$2; shift 2
S=$(mktemp -d /tmp/sq.XXXXXX); mkdir -p $S/repo && git -C /repo archive HEAD | tar -x -C $S/repo; mkdir -p $S/verif/evidence; cp /verif/known_findings.txt $S/verif/
if [ -d "$src" ]; then (cd $src && git diff) > $S/p.diff; else cp $src $S/p.diff; fi
(cd $S/repo && patch -s -p1 < $S/p.diff) || echo "patch failed"
for p in "$@"; do echo "-- $p: $($bin -repo $S/repo -verif $S/verif -property $p 2>&1 | grep -E '\[violated\]|SUMMARY' | cut -c1-${COLS:-240} | sed "s#$S/repo/##g" | head -${LINES_MAX:-4})"; done
rm -rf $S
