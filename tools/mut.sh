#!/bin/bash
# usage: mut.sh <prop[,prop]> <relative file> <python-regex> <replacement> [count]
# Applies one textual mutation to a scratch copy of /repo, checks it still builds, runs the
# property check against the copy and prints the verdict lines. Scratch copy is removed.
set -u
export GOFLAGS=-mod=mod GOPROXY=off GOSUMDB=off GOTOOLCHAIN=local
props=$1; file=$2; pat=$3; rep=$4; cnt=${5:-1}
S=$(mktemp -d /tmp/mut.XXXXXX)
rsync -a --exclude .git /repo/ $S/repo/
mkdir -p $S/verif/evidence; cp /verif/known_findings.txt $S/verif/
python3 - "$S/repo/$file" "$pat" "$rep" "$cnt" <<'PY'
import re,sys
p,pat,rep,cnt=sys.argv[1:5]
s=open(p).read()
n,k=re.subn(pat,rep,s,count=int(cnt),flags=re.S)
if k==0: print("MUTATION DID NOT APPLY"); sys.exit(3)
open(p,'w').write(n)
PY
[ $? -eq 3 ] && { rm -rf $S; exit 3; }
(cd $S/repo && go build ./... 2>&1 | head -5) || true
if ! (cd $S/repo && go build ./... >/dev/null 2>&1); then echo "MUTANT DOES NOT BUILD"; rm -rf $S; exit 4; fi
for p in ${props//,/ }; do
  /verif/bin/gmsmcheck -repo $S/repo -verif $S/verif -property $p 2>&1 | grep -v "^VIOLATION\|^KNOWN" | cut -c1-420 | sed "s#$S/repo/##g"
done
rm -rf $S
