#!/bin/bash
# usage: rft1.sh <refactor-name> [props]  — apply one stored refactor patch to a scratch copy and run the named checks
export GOFLAGS=-mod=mod GOPROXY=off GOSUMDB=off GOTOOLCHAIN=local
n=$1; props=${2:-$(cat /verif/refactors/$n/result.txt | tr ' ' '\n' | grep : | cut -d: -f1 | tr '\n' ' ')}
S=$(mktemp -d /tmp/rf1.XXXXXX); mkdir -p $S/repo && git -C /repo archive HEAD | tar -x -C $S/repo; mkdir -p $S/verif/evidence; cp /verif/known_findings.txt $S/verif/
(cd $S/repo && patch -s -p1 < /verif/refactors/$n/patch.diff) || { echo "patch failed"; rm -rf $S; exit 2; }
for p in $props; do ${BIN:-${BIN:-${BIN:-/verif/bin/gmsmcheck}}} -repo $S/repo -verif $S/verif -property $p 2>&1 | grep -E "\[(violated|undecided|anchor-missing)\]|SUMMARY" | cut -c1-${COLS:-330} | sed "s#$S/repo/##g"; done
rm -rf $S
