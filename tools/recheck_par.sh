#!/bin/bash
# Parallel variant of recheck_seeds.sh: every stored seed is applied to its own scratch copy of /repo (git archive HEAD,
# never /repo itself), the checks named in its meta.json run against the copy, and "check_result" is refreshed.
# Usage: recheck_par.sh [name-prefix]   (env P = parallelism, default 6)
export GOFLAGS=-mod=mod GOPROXY=off GOSUMDB=off GOTOOLCHAIN=local
cd /verif/seeded || exit 2
one() {
  d=$1
  props=$(python3 -c "import json;print(' '.join(json.load(open('/verif/seeded/$d/meta.json'))['properties_checked']))")
  S=$(mktemp -d /tmp/rsp.XXXXXX); mkdir -p $S/repo $S/verif/evidence; git -C /repo archive HEAD | tar -x -C $S/repo; cp /verif/known_findings.txt $S/verif/
  if ! (cd $S/repo && patch -s -p1 < /verif/seeded/$d/patch.diff >/dev/null 2>&1); then echo "$d: patch no longer applies"; rm -rf $S; return; fi
  res=""
  for p in $props; do
    n=$(/verif/bin/gmsmcheck -repo $S/repo -verif $S/verif -property $p 2>&1 | grep -c '^VIOLATION')
    res="$res $p:$n"
  done
  rm -rf $S
  python3 - "/verif/seeded/$d" "$res" <<'PY'
import json,sys
d,res=sys.argv[1],sys.argv[2].strip()
p=d+'/meta.json'
m=json.load(open(p)); m['check_result']=res
json.dump(m,open(p,'w'),indent=1,ensure_ascii=False)
PY
  echo "$d:$res"
}
export -f one
ls -d ${1:-}*/ | sed 's#/##' | xargs -P ${P:-6} -I{} bash -c 'one {}'
