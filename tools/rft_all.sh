#!/bin/bash
# re-run every stored refactor that alarmed before (result.txt != clean) against the properties that alarmed
cd /verif/refactors
ls -d */ | sed 's#/##' | xargs -P 6 -I{} sh -c 'r=$(cat {}/result.txt 2>/dev/null); case "$r" in *clean*|"") ;; *) out=$(COLS=200 /verif/tools/rft1.sh {} 2>&1 | grep -E "\[(violated|undecided|anchor-missing)\]" | head -3); if [ -n "$out" ]; then echo "== {}"; echo "$out"; else echo "== {} now clean"; fi;; esac' 2>&1
