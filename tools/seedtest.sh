#!/bin/bash
# usage: seedtest.sh <seed-name> <property[,property]> <worktree>
# Confirms a seeded change (demo fails with it / passes without it, existing tests pass), stores it under
# /verif/seeded/<seed-name>/ and runs the property checks against /repo with the patch applied.
set -u
export GOFLAGS=-mod=mod GOPROXY=off GOSUMDB=off GOTOOLCHAIN=local
name=$1; props=$2; wt=$3
out=/verif/seeded/$name; mkdir -p $out
cd $wt || exit 2
demo=$(git status --porcelain | grep '^??' | awk '{print $2}' | grep '_test.go$' | head -1)
git diff > $out/patch.diff
[ -s $out/patch.diff ] || { echo "EMPTY PATCH"; exit 2; }
cp $demo $out/$(basename $demo)
pkg=./$(dirname $demo)
tname=$(grep -o 'func Test[A-Za-z0-9_]*' $demo | head -1 | sed 's/func //')
echo "== demo $demo test $tname pkg $pkg"
go build ./... || { echo "DOES NOT BUILD"; exit 3; }
with=$(go test -count=1 -run "^$tname\$" $pkg 2>&1 | tail -1)
echo "with change:    $with"
base=$(/verif/tools/baseline.sh $wt | head -1)
echo "existing tests: $base"
git apply -R $out/patch.diff
without=$(go test -count=1 -run "^$tname\$" $pkg 2>&1 | tail -1)
git apply $out/patch.diff
echo "without change: $without"
rm -f pkcs12/test.p12
cd /repo && git apply $out/patch.diff || { echo "PATCH DOES NOT APPLY TO /repo"; exit 4; }
res=""
for p in ${props//,/ }; do
  mkdir -p /tmp/seedverif.$$; cp /verif/known_findings.txt /tmp/seedverif.$$/
  o=$(cd /verif && /verif/bin/gmsmcheck -repo /repo -verif /tmp/seedverif.$$ -property $p 2>&1)
  echo "$o" | grep -v "^VIOLATION\|^KNOWN" | cut -c1-400
  res="$res $p:$(echo "$o" | grep -c '^VIOLATION')"
done
git -C /repo checkout -- . ; rm -rf /tmp/seedverif.$$
echo "RESULT $name violations:$res"
python3 - "$out" "$name" "$props" "$with" "$without" "$base" "$res" "$wt" <<'PY'
import json,sys,os
out,name,props,withc,without,base,res,wt=sys.argv[1:9]
meta={}
mp=os.path.join(wt,'_seed','meta.json')
if os.path.exists(mp):
    try: meta=json.load(open(mp))
    except Exception as e: meta={'agent_meta_error':str(e)}
meta.update({'seed':name,'properties_checked':props.split(','),'confirmed':{'demo_with_change':withc,'demo_without_change':without,'existing_tests_with_change':base},'check_result':res.strip(),
 'ran':['go test -run <demo> (with and without the change, in a scratch worktree)','/verif/tools/baseline.sh <worktree>','git -C /repo apply patch.diff; gmsmcheck -property …; git -C /repo checkout -- .']})
json.dump(meta,open(os.path.join(out,'meta.json'),'w'),indent=1,ensure_ascii=False)
PY
