#!/bin/bash
# re-run EVERY stored refactor patch against ALL 20 checks (scratch copies), rewriting result.txt / *.alarms.txt
export GOFLAGS=-mod=mod GOPROXY=off GOSUMDB=off GOTOOLCHAIN=local
cd /verif/refactors
one() {
  n=$1; S=$(mktemp -d /tmp/rff.XXXXXX); mkdir -p $S/repo && git -C /repo archive HEAD | tar -x -C $S/repo; mkdir -p $S/verif/evidence; cp /verif/known_findings.txt $S/verif/
  (cd $S/repo && patch -s -p1 < /verif/refactors/$n/patch.diff) || { echo "$n: patch failed"; rm -rf $S; return; }
  res=""; rm -f /verif/refactors/$n/*.alarms.txt
  for p in C01 C02 C03 C04 C05 C06 C07 C08 C09 C10 C11 C12 C13 C14 C15 C16 C17 C18 C19 C20; do
    o=$(/verif/bin/gmsmcheck -repo $S/repo -verif $S/verif -property $p 2>&1)
    k=$(echo "$o" | grep -c '^VIOLATION')
    if [ "$k" != "0" ]; then res="$res $p:$k"; echo "$o" | grep -E "\[(violated|undecided|anchor-missing)\]" | cut -c1-400 | sed "s#$S/repo/##g" > /verif/refactors/$n/$p.alarms.txt; fi
  done
  echo "$n: ${res:- clean}"; echo "${res:- clean}" > /verif/refactors/$n/result.txt
  rm -rf $S
}
export -f one
ls -d */ | sed 's#/##' | xargs -P ${P:-8} -I{} bash -c 'one {}'
