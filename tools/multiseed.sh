#!/bin/bash
# usage: multiseed.sh <id> <worktree> [bin]   — for every _seed/pK.patch of a multi-seed worktree: on a scratch copy of
# /repo (never /repo itself) confirm the change (builds, demo test fails with it and passes without it, baseline
# 35/35) and run the property's check. Confirmed seeds are stored under /verif/seeded/<id>-m<wave>-<K>/.
export GOFLAGS=-mod=mod GOPROXY=off GOSUMDB=off GOTOOLCHAIN=local
id=$1; wt=$2; bin=${3:-/verif/bin/gmsmcheck}; wave=${WAVE:-11}
for pf in $wt/_seed/p*.patch; do
  [ -s "$pf" ] || continue
  k=$(basename $pf .patch); k=${k#p}
  demo=$(ls $wt/_seed/p${k}_test.go 2>/dev/null)
  dpath=$(python3 -c "
import json,sys
try:
  l=json.load(open('$wt/_seed/meta.json')); m=[x for x in l if x.get('patch')=='p$k.patch']; print(m[0].get('demo','') if m else '')
except Exception as e: print('')")
  S=$(mktemp -d /tmp/ms.XXXXXX); mkdir -p $S/repo && git -C /repo archive HEAD | tar -x -C $S/repo; mkdir -p $S/verif/evidence; cp /verif/known_findings.txt $S/verif/
  tname=""; pkg=""
  if [ -n "$demo" ] && [ -n "$dpath" ]; then cp $demo $S/repo/$dpath; tname=$(grep -o 'func Test[A-Za-z0-9_]*' $demo | head -1 | sed 's/func //'); pkg=./$(dirname $dpath); fi
  without="n/a"; with="n/a"
  if [ -n "$tname" ]; then without=$(cd $S/repo && go test -count=1 -run "^$tname\$" $pkg 2>&1 | tail -1 | cut -c1-40); fi
  if ! (cd $S/repo && patch -s -p1 < $pf); then echo "$id-$k: PATCH DOES NOT APPLY"; rm -rf $S; continue; fi
  if ! (cd $S/repo && go build ./... >/dev/null 2>&1); then echo "$id-$k: DOES NOT BUILD"; rm -rf $S; continue; fi
  if [ -n "$tname" ]; then with=$(cd $S/repo && go test -count=1 -run "^$tname\$" $pkg 2>&1 | tail -1 | cut -c1-40); fi
  [ -n "$dpath" ] && mv $S/repo/$dpath $S/demo_test.go.keep 2>/dev/null
  if [ -n "$SKIPBASE" ]; then base="skipped"; else base=$(/verif/tools/baseline.sh $S/repo | head -1); fi
  o=$($bin -repo $S/repo -verif $S/verif -property $id 2>&1)
  nv=$(echo "$o" | grep -c '^VIOLATION'); nu=$(echo "$o" | grep -c '^UNDECIDED')
  first=$(echo "$o" | grep -E "\[violated\]" | head -1 | cut -c1-160 | sed "s#$S/repo/##g")
  ok=0; case "$with" in *FAIL*|*panic*) case "$without" in ok*) case "$base" in *35/35*) ok=1;; esac;; esac;; esac
  echo "$id-$k: confirmed=$ok with=[$with] without=[$without] base=[$base] check=$id:$nv undecided=$nu $first"
  if [ "$ok" = "1" ] && [ -z "$SKIPBASE" ]; then
    out=/verif/seeded/$id-m$wave-$k; mkdir -p $out; cp $pf $out/patch.diff; [ -n "$demo" ] && cp $demo $out/$(basename $dpath)
    python3 - "$wt/_seed/meta.json" "p$k.patch" "$out/meta.json" "$id" "$nv" "$with" "$without" "$base" <<'PY'
import json,sys
src,pn,dst,pid,nv,w,wo,base=sys.argv[1:9]
try:
    l=json.load(open(src)); m=[x for x in l if x.get('patch')==pn]; m=m[0] if m else {}
except Exception as e: m={'error':str(e)}
m.update({'property':pid,'properties_checked':[pid],'confirmed':True,'check_result':'%s:%s'%(pid,nv),'demo_with_change':w,'demo_without_change':wo,'existing_tests':base})
json.dump(m,open(dst,'w'),indent=1,ensure_ascii=False)
PY
  fi
  rm -rf $S
done
